"""C08: tree comparison counts are exact set differences of splits."""
import copy, os
from lib import *

PROP = "C08"
PAR_OK = True
LEVEL = "proof"
RULE = ("pairs (reference, compared) of unrooted trees on the same 4..11 taxa (root of degree >= 3, multifurcations up to degree 6, "
        "parent slot at random positions, every branch with a dyadic length): independent random trees, the same tree twice, "
        "re-rooted and child-shuffled copies, the compared tree a random contraction of the reference (1..all inner branches "
        "removed, the star tree included), the compared tree a refinement of the reference, contraction+re-resolution pairs sharing some "
        "splits, length-perturbed copies; every pair is run in both orders (swap), with and without tip branches, with and "
        "without the identical-only shortcut, through Compare, CompareWeighted and CommonEdges; every base pair also yields STREAMS of 4..6 "
        "compared trees sent through one call (cpus=1): the reference itself first then contractions / other topologies / a re-rooted copy, "
        "repeated identical trees, mixed streams with the star tree and length-perturbed copies, streams with a tree on other taxa in the "
        "middle; each record is judged on its own against the per-tree model and the oracle; PRE-USED trees: the worker indexes the "
        "reference and/or compared trees (ReinitIndexes), then edits them through the public API without re-indexing (Rename swapping two "
        "tips, Node.SetName swap, Reroot at a random node, RotateInternalNodes, UnRoot of a rooted copy), dumps them, and only then "
        "compares; model and oracle work on the dumped trees (a stale index must not influence the record); PRE-HISTORY: a tree indexed "
        "while it had 1..3 more tips then pruned in memory (RemoveTips), and sequences of edits (RemoveTips / Reroot / Rename / SetName / "
        "ReinitIndexes / Clone / CollapseShortBranches / UnRoot) on either tree before the comparison; 45% of the bases use arbitrary "
        "taxon names (case variants of one name, prefixes of one another, t1/t10/t01, numeric names, blanks, quotes, brackets, "
        "non-ASCII); streams of 120..400 trees with 1..3 rejected trees at random positions run with cpus in {2,8}, records matched "
        "by id; rejection cases rename one tip, "
        "drop a tip or add a tip in one of the trees; some rooted pairs (outside the quantifier) are run for the correspondence "
        "only; the COMMAND LINE `gotree compare trees -i ref -c trees -t k [--tips|--binary|--rf|--weighted [--tips]]` is run on generated Newick files under no CPU "
        "restriction, pinned to 1 CPU and pinned to 2 CPUs (taskset), with -t in {1,2,NumCPU,NumCPU+5}: every printed row is compared with the "
        "set algebra of the splits computed in Python (per tree id; with --weighted the printed weighted RF and KF are compared with the sums of "
        "Properties/C08Extra8.v C08_wrf_terms / C08_kf2_terms over the exact dyadic lengths, formatted with %E), a stream with a tree on other taxa must exit non-zero; "
        "all ordered pairs of the 7 unrooted shapes on 4 taxa and of the 66 on 5 taxa are enumerated in the thorough tier (trees up to 24 taxa there); non-trivial = the two trees differ in at "
        "least one non-trivial split (or must be rejected); distinct = distinct case text")
TRUSTED = ["trees built through NewNode/NewEdge + verif hooks (exact neighbour order); records read from the stats channel",
           "the compared tree is fed through a closed buffered channel of tree.Trees as utils.ReadMultiTrees does (no Newick parsing)",
           "a call that does not deliver within 8 s is reported as a hang"]
ASSUMPTIONS = ["cpus = 1: the sequential semantics is modelled (threading is property C11)",
               "the theorems are about the model over an association list keyed by the bipartition; the judge also runs the model "
               "over the hash index of Model/EdgeIndex.v (C04) on every case and demands that both agree with the Go record",
               "float64 subtraction of the dyadic lengths is exact (lengths are k/64, k <= 256)",
               "Model/C08Extra8.v (rf_of, wrf_of, kf2_of = the arithmetic of cmd/comparetrees.go RunE over exact rationals) is not extracted "
               "into the judge: the command-line rows are compared with the right-hand sides of its theorems computed in Python; "
               "math.Sqrt / %E formatting are outside the model"]
LEVEL_TEXT = "proof"
LEVEL_NOTE = ""

def _msg(case):
    f = case.get("fields") or [""]
    return f[0] if f else ""

# Fixed in /repo (eda8b7a): Compare set Sametree only from the compared tree's branches, so a strict contraction of
# the reference was reported identical (witness: ref ((a,b),c,d), compared (a,b,c,d): Tree1=1 Tree2=0 Sametree=true).
# The oracle still checks it on every case (message "sametree=T but splits only in reference=..."); no open matcher.
MATCHERS = {}

# ---------------------------------------------------------------- tree surgery on node dicts

def clone(t):
    return copy.deepcopy(t)

def inner_child_positions(t):
    """(parent node, slot index) of every branch whose child is an inner node"""
    r = []
    for n in preorder(t):
        for i, s in enumerate(n["slots"]):
            if s is not None and kids(s[1]):
                r.append((n, i))
    return r

def contract_one(t, rng):
    """remove one random inner branch (the child's children join the parent in place); False if none"""
    pos = inner_child_positions(t)
    if not pos:
        return False
    n, i = rng.choice(pos)
    e, c = n["slots"][i]
    n["slots"][i:i + 1] = [s for s in c["slots"] if s is not None]
    return True

def contraction(t, rng, k=None):
    t = clone(t)
    npos = len(inner_child_positions(t))
    if k is None:
        k = rng.randint(1, max(1, npos))
    for _ in range(k):
        if not contract_one(t, rng):
            break
    return t

def resolve_random(t, rng, g, p=0.7):
    """refine: at nodes with many children, group some children under a new inner node"""
    t = clone(t)
    for n in list(preorder(t)):
        while True:
            ch = [i for i, s in enumerate(n["slots"]) if s is not None]
            up = len(n["slots"]) - len(ch)
            # keep degree >= 3 at n after grouping, and the group must be a proper subset with >= 2 members
            if len(ch) + up < 4 or rng.random() > p:
                break
            k = rng.randint(2, len(ch) + up - 2)
            if k > len(ch):
                break
            grp = sorted(rng.sample(ch, k))
            moved = [n["slots"][i] for i in grp]
            new = {"name": "", "coms": [], "slots": [None] + moved}
            e = {"len": g.length("all"), "sup": None, "pv": None, "coms": []}
            first = grp[0]
            for i in reversed(grp):
                del n["slots"][i]
            n["slots"].insert(first, (e, new))
    return t

def shuffle_children(t, rng):
    t = clone(t)
    for n in preorder(t):
        rng.shuffle(n["slots"])
    return t

def reroot_at(t, rng):
    """re-root at a random inner node (keeps every neighbour list in order, the parent slot moves)"""
    t = clone(t)
    # path to a random inner node
    paths = []
    def walk(n, p):
        if kids(n):
            paths.append(p)
        for i, s in enumerate(n["slots"]):
            if s is not None:
                walk(s[1], p + [i])
    walk(t, [])
    p = rng.choice(paths)
    root = t
    for i in p:
        e, c = root["slots"][i]
        root["slots"][i] = None
        j = c["slots"].index(None)
        c["slots"][j] = (e, root)
        root = c
    return root

def perturb_lengths(t, rng, g, p=0.3):
    t = clone(t)
    for n in preorder(t):
        for i, s in enumerate(n["slots"]):
            if s is not None and rng.random() < p:
                e = dict(s[0]); e["len"] = g.length("all")
                n["slots"][i] = (e, s[1])
    return t

def rename_tip(t, rng, new):
    t = clone(t)
    tips = [n for n in preorder(t) if not kids(n)]
    rng.choice(tips)["name"] = new
    return t

def drop_tip(t, rng):
    """remove one tip below a node that keeps >= 3 neighbours"""
    t = clone(t)
    cands = []
    for n in preorder(t):
        if len(n["slots"]) >= 4:
            for i, s in enumerate(n["slots"]):
                if s is not None and not kids(s[1]):
                    cands.append((n, i))
    if not cands:
        return None
    n, i = rng.choice(cands)
    del n["slots"][i]
    return t

def add_tip(t, rng, g, name):
    t = clone(t)
    inner = [n for n in preorder(t) if kids(n)]
    n = rng.choice(inner)
    e = {"len": g.length("all"), "sup": None, "pv": None, "coms": []}
    n["slots"].insert(rng.randrange(0, len(n["slots"]) + 1), (e, {"name": name, "coms": [], "slots": [None]}))
    return t

def from_shape(g, sh, rng):
    return g.decorate(sh, lenmode="all", supmode="mixed", up_random=True)

# ---------------------------------------------------------------- cases

def emit(out, kind, t1, t2, rng, ops=("compare", "weighted", "common"), flags=None, both_orders=True):
    orders = [(t1, t2, False)]
    if both_orders:
        orders.append((t2, t1, True))
    for a, b, sw in orders:
        for op in ops:
            fl = flags if flags is not None else [(False, False), (True, False), (False, True), (True, True)]
            if op == "common":
                fl = [(False, False), (True, False)]
            for tips, ident in fl:
                if op == "common":
                    c = {"op": Sym(op), "t1": T(a), "t2": T(b), "tips": tips, "ident": ident}
                else:
                    c = {"op": Sym(op), "t1": T(a), "t2s": [T(b)], "tips": tips, "ident": ident}
                out.append({"sx": sx(c), "meta": {"kind": kind, "op": op, "tips": tips, "ident": ident, "swapped": sw,
                                                  "ntips": len(leaves(a)), "stream": 1}})

def emit_stream(out, kind, t1, t2s, rng, ops=("compare", "weighted"), flags=None):
    """several compared trees streamed through ONE call (cpus=1): nothing of an earlier tree may leak into a later record"""
    for op in ops:
        fl = flags if flags is not None else [(False, False), (True, False), (False, True)]
        for tips, ident in fl:
            c = {"op": Sym(op), "t1": T(t1), "t2s": [T(b) for b in t2s], "tips": tips, "ident": ident}
            out.append({"sx": sx(c), "meta": {"kind": kind, "op": op, "tips": tips, "ident": ident, "swapped": False,
                                              "ntips": len(leaves(t1)), "stream": len(t2s)}})

def root_on_branch(t, rng, g):
    """degree-2 root on a random branch of an unrooted tree"""
    r = reroot_at(t, rng)
    ch = [i for i, s in enumerate(r["slots"]) if s is not None]
    i = rng.choice(ch)
    e, c = r["slots"][i]
    del r["slots"][i]
    r["slots"].insert(rng.randrange(0, len(r["slots"]) + 1), None)
    e1 = dict(e); e1["len"] = g.length("all")
    e2 = {"len": g.length("all"), "sup": None, "pv": None, "coms": []}
    sl = [(e1, c), (e2, r)]
    rng.shuffle(sl)
    return {"name": "", "coms": [], "slots": sl}

def tricky_names(rng, n):
    """n distinct taxon names exercising the ordering of tip names: case variants of one name, names that are prefixes of
    one another, trailing digits (t1 / t10 / t01), numeric names, blanks / quotes / brackets, non-ASCII bytes"""
    pools = [
        ["Ecoli", "ecoli", "ECOLI", "eColi", "Ecoli2", "ecoli_2", "E", "e", "Ec", "ec", "EC", "eC"],
        ["t1", "t10", "t01", "t2", "t02", "t20", "t100", "t001", "t", "t1a", "T1", "T10"],
        ["1", "01", "1.0", "10", "2", "-1", "1e3", "0", "00", "1.", ".1", "+1"],
        ["a b", "a  b", " a", "a ", "'a'", "a'b", "\"q\"", "a(b)", "a,b", "a:b", "a;b", "[a]"],
        ["\u00e9", "e\u0301", "\u00c9", "z\u00e9", "\u00e9z", "\u4e2d", "\u4e2d\u6587", "\u00df", "ss", "\u00e6", "ae", "\u03b1"],
        ["a", "ab", "abc", "abcd", "b", "ba", "A", "AB", "Ab", "aB", "_", "__"],
    ]
    names = []
    order = list(range(len(pools)))
    rng.shuffle(order)
    for pi in order:
        p = list(pools[pi]); rng.shuffle(p)
        for x in p:
            if len(names) < n and x not in names:
                names.append(x)
    i = 0
    while len(names) < n:
        names.append("n%d" % i); i += 1
    rng.shuffle(names)
    return names

def relabel(t, mp):
    t = clone(t)
    for nd in preorder(t):
        if nd["name"] in mp:
            nd["name"] = mp[nd["name"]]
    return t

def taxa_variants(t, rng, g):
    """all the ways the taxon multiset of a tree can differ from that of [t]: (kind, tree)"""
    names = leaves(t)
    a, b = rng.sample(names, 2)
    def ren(src, dst):
        u = clone(t)
        for nd in preorder(u):
            if not kids(nd) and nd["name"] == src:
                nd["name"] = dst
        return u
    out = [("newname", ren(a, "zz")),
           ("dup-same-count", ren(a, b)),                      # one taxon missing, another present twice
           ("dup-bigger", add_tip(t, rng, g, b)),              # every taxon present, one twice
           ("extra", add_tip(t, rng, g, "zz")),
           ("emptyname", ren(a, "")),
           ("casevariant", ren(a, a.swapcase() if a.swapcase() != a else a + "A"))]
    d = drop_tip(t, rng)
    if d is not None:
        out.append(("missing", d))
    return out

# hash extremes.  ZERO4: four names found by the author of a seeded change (C09-r6m1): the sums of the FNV-64a hashes of
# {Aquila,Buteo} and of {Corvus,Dendrocopos} both end in 32 zero bits, so Edge.HashCode of the balanced split (the product)
# is exactly 0 -- a legal hash value.  COLLIDE: names whose FNV-64a hashes agree on the low 7 bits (same bucket of a
# 128-bucket index for every tip branch).
ZERO4 = ["spwk3icgh_Aquila", "spw3pkpkx_Buteo", "spvqpu4o9_Corvus", "spx6fjmhq_Dendrocopos"]
COLLIDE = ["c126", "c184", "c207", "c1073", "c1091", "c1204", "c1275", "c1349"]

def zero4_trees(g):
    a, b, c, d = ZERO4
    shapes = [[[a, b], c, d], [a, b, [c, d]], [[a, b], [c, d]], [c, [a, b], d], [[b, a], [d, c]], [a, b, c, d], [[a, c], b, d]]
    return [g.decorate(sh, lenmode="all", supmode="none", up_random=True) for sh in shapes]

NONE = [Sym("none")]

def edit_for(t, rng, kind=None):
    """an index-invalidating public edit applied by the worker AFTER ReinitIndexes and without re-indexing"""
    kind = kind or rng.choice(["rename", "rename", "setname", "reroot", "rotate"])
    if kind in ("rename", "setname"):
        a, b = rng.sample(leaves(t), 2)
        return [Sym(kind), a, b]
    if kind == "reroot":
        return [Sym("reroot"), rng.randrange(0, n_nodes(t))]
    if kind == "rotate":
        return [Sym("rotate"), rng.randrange(1, 2 ** 31)]
    if kind == "unroot":
        return [Sym("unroot")]
    return NONE

def emit_pre(out, kind, t1, t2s, pre1, pres, rng, ops=("compare", "weighted"), flags=None, prep=None):
    """pre-used trees: indexed, edited through the public API, NOT re-indexed, then compared"""
    for op in ops:
        fl = flags if flags is not None else [(False, False), (True, False)]
        for tips, ident in fl:
            if op == "common":
                c = {"op": Sym(op), "t1": T(t1), "t2": T(t2s[0]), "tips": tips, "ident": False, "pre1": pre1, "pres": [pres[0]]}
                if prep:
                    c["prep"] = Sym(prep)
            else:
                c = {"op": Sym(op), "t1": T(t1), "t2s": [T(b) for b in t2s], "tips": tips, "ident": ident,
                     "pre1": pre1, "pres": pres}
            out.append({"sx": sx(c), "meta": {"kind": kind, "op": op, "tips": tips, "ident": ident, "swapped": False,
                                              "ntips": len(leaves(t1)), "stream": len(t2s), "preused": True}})

def emit_par(out, t1, t2s, cpus, rng, op="compare"):
    """many compared trees, several workers (cpus >= 2); records are matched by id, each judged on its own"""
    c = {"op": Sym(op), "t1": T(t1), "t2s": [T(b) for b in t2s], "tips": rng.random() < 0.5, "ident": False, "cpus": cpus}
    out.append({"sx": sx(c), "meta": {"kind": "parallel", "op": op, "tips": c["tips"], "ident": False, "swapped": False,
                                      "ntips": len(leaves(t1)), "stream": len(t2s), "cpus": cpus}})

def parallel_cases(out, rng, g, ncases, ntrees):
    for _ in range(ncases):
        n = rng.randint(4, 8)
        t = unrooted(g, rng, n, maxdeg=4)
        pool = [clone(t), contraction(t, rng), unrooted(g, rng, n, maxdeg=4), shuffle_children(reroot_at(t, rng), rng)]
        t2s = [rng.choice(pool) for _ in range(ntrees)]
        # 1..3 rejected trees, or (every other case) about half of the stream: the per-tree error must stay per tree
        nbad = rng.randint(1, 3) if rng.random() < 0.5 else ntrees // 2
        for _ in range(nbad):
            t2s[rng.randrange(ntrees)] = rename_tip(rng.choice(pool), rng, "zz")
        emit_par(out, t, t2s, rng.choice([2, 8]), rng, op=rng.choice(["compare", "compare", "weighted"]))

def unrooted(g, rng, n, maxdeg=5):
    return g.tree(ntips=n, rooted=False, maxdeg=maxdeg, lenmode="all", supmode="mixed", up_random=rng.random() < 0.6)

def gen(rng, tier):
    g = Gen(rng)
    nbase = {"quick": 20, "thorough": 220, "search": 40}[tier]
    hi = 11 if tier != "thorough" else 24
    out = []
    for _ in range(nbase):
        n = rng.randint(4, hi)
        t = unrooted(g, rng, n, maxdeg=rng.choice([3, 4, 6]))
        u = unrooted(g, rng, n, maxdeg=rng.choice([3, 4, 6]))
        if rng.random() < 0.45:
            # taxon names are arbitrary: case variants, prefixes, trailing digits, numeric, blanks, non-ASCII
            mp = dict(zip(["t%d" % i for i in range(n)], tricky_names(rng, n)))
            t = relabel(t, mp); u = relabel(u, mp)
        fl2 = [(rng.random() < 0.5, rng.random() < 0.3)]
        emit(out, "independent", t, u, rng, flags=fl2 + [(False, False)])
        emit(out, "identical", t, clone(t), rng, ops=("compare", "weighted"), both_orders=False, flags=[(False, False), (True, True)])
        emit(out, "rerooted", t, shuffle_children(reroot_at(t, rng), rng), rng, flags=fl2)
        emit(out, "relengthed", t, perturb_lengths(shuffle_children(t, rng), rng, g), rng, ops=("weighted",))
        c = contraction(t, rng)
        emit(out, "contraction", t, reroot_at(c, rng) if rng.random() < 0.5 else c, rng)
        r = resolve_random(t, rng, g)
        emit(out, "refinement", t, r, rng, flags=fl2 + [(False, True)])
        # share some splits, differ in others
        m = resolve_random(contraction(t, rng), rng, g)
        emit(out, "mixed", t, shuffle_children(m, rng), rng, flags=fl2 + [(False, False)])
        # streams through one call: the reference itself first, then contractions / other topologies / repeats
        c1 = contraction(t, rng, k=1)
        fl1 = [(rng.random() < 0.5, False)]
        emit_stream(out, "stream-ref-first", t, [clone(t), c1, u, shuffle_children(reroot_at(t, rng), rng), c], rng, flags=fl1 + [(False, True)])
        emit_stream(out, "stream-repeat", t, [clone(t), clone(t), c1, c1, clone(t)], rng, flags=fl1)
        emit_stream(out, "stream-mixed", t, [r, c, m, contraction(t, rng, k=1000), perturb_lengths(t, rng, g), u], rng, flags=fl1)
        if rng.random() < 0.5:
            emit_stream(out, "stream-difftaxa", t, [clone(t), rename_tip(t, rng, "zz"), c1, clone(t)], rng, flags=fl1)
        # pre-used trees: indexed earlier, then edited without re-indexing, then compared
        flp = [(rng.random() < 0.5, rng.random() < 0.25)]
        emit_pre(out, "pre-rename", t, [clone(t)], NONE, [edit_for(t, rng, "rename")], rng, ops=("compare", "weighted", "common"), flags=flp)
        emit_pre(out, "pre-setname", t, [clone(t)], NONE, [edit_for(t, rng, "setname")], rng, flags=flp)
        emit_pre(out, "pre-ref", t, [clone(t), c1], edit_for(t, rng), [NONE, edit_for(c1, rng)], rng, flags=flp)
        emit_pre(out, "pre-stream", t, [clone(t), clone(t), c1, u, clone(t)], NONE,
                 [NONE, edit_for(t, rng, "rename"), edit_for(c1, rng, "reroot"), edit_for(u, rng), edit_for(t, rng, "rotate")], rng, flags=flp)
        # pre-history: a tree indexed while it had MORE tips, pruned in memory, then compared; edit sequences
        extra = ["zx%d" % i for i in range(rng.randint(1, 3))]
        big = t
        for x in extra:
            big = add_tip(big, rng, g, x)
        prune = [Sym("removetips")] + extra
        emit_pre(out, "pre-prune", t, [big], NONE, [prune], rng, ops=("compare", "weighted", "common"), flags=flp)
        emit_pre(out, "pre-prune-ref", big, [clone(t), c1], prune, [NONE, NONE], rng, flags=flp)
        bigu = u
        for x in extra:
            bigu = add_tip(bigu, rng, g, x)
        seq1 = [Sym("seq"), prune, edit_for(t, rng, "reroot"), edit_for(t, rng, "rename")]
        seq2 = [Sym("seq"), edit_for(u, rng, "reroot"), [Sym("reinit")], edit_for(u, rng, "setname"), [Sym("clone")]]
        seq3 = [Sym("seq"), [Sym("clone")], edit_for(t, rng, "rename"), [Sym("collapse"), Fraction(rng.choice([1, 8, 32]), 64)]]
        emit_pre(out, "pre-seq", t, [big, clone(u), clone(t), bigu], edit_for(t, rng, "rotate"),
                 [seq1, seq2, seq3, [Sym("seq"), [Sym("removetips")] + extra, [Sym("unroot")]]], rng, flags=flp)
        # CommonEdges after the documented three-call preparation (UpdateTipIndex; ClearBitSets; UpdateBitSet) instead of
        # ReinitIndexes, on fresh trees and on trees that were fully indexed (and edited) earlier
        emit_pre(out, "prep-three", t, [shuffle_children(reroot_at(t, rng), rng)], NONE, [NONE], rng, ops=("common",), flags=flp, prep="three")
        emit_pre(out, "prep-three-used", t, [clone(t)], rng.choice([NONE, edit_for(t, rng, "reroot")]),
                 [rng.choice([[Sym("reinit")], edit_for(t, rng, "reroot"), edit_for(t, rng, "rename")])], rng, ops=("common",), flags=flp, prep="three")
        emit_pre(out, "prep-three-used", u, [c1], [Sym("seq"), [Sym("reinit")], edit_for(u, rng, "rotate")], [NONE], rng, ops=("common",), flags=flp, prep="three")
        # the compared tree is a Clone() of the already indexed reference (or the reverse), then its names are permuted
        perm = rng.choice([edit_for(t, rng, "rename"), edit_for(t, rng, "setname"), [Sym("shuffle"), rng.randrange(1, 2 ** 31)],
                           [Sym("seq"), edit_for(t, rng, "rename"), edit_for(t, rng, "rename")]])
        emit_pre(out, "clone-of-ref", t, [clone(t)], NONE, [[Sym("fromref"), perm]], rng, ops=("compare", "weighted", "common"), flags=flp)
        emit_pre(out, "clone-of-ref", t, [clone(t), c1, clone(t)], NONE, [[Sym("fromref"), perm], NONE, [Sym("fromref")]], rng, flags=flp)
        emit_pre(out, "clone-of-cmp", clone(u), [u, c1], [Sym("fromcmp"), 0, perm], [NONE, NONE], rng, flags=flp)
        rt2 = root_on_branch(t, rng, g)
        emit_pre(out, "pre-unroot", t, [rt2], NONE, [[Sym("unroot")]], rng, ops=("compare", "weighted", "common"), flags=flp)
        # star tree against anything
        if rng.random() < 0.3:
            emit(out, "star", t, contraction(t, rng, k=1000), rng, flags=[(False, False), (False, True)])
        # rejection
        w = rng.random()
        if w < 0.4:
            bad = rename_tip(u if rng.random() < 0.5 else t, rng, "zz")
        elif w < 0.7:
            bad = drop_tip(t, rng) or rename_tip(t, rng, "zz")
        else:
            bad = add_tip(u, rng, g, "zz")
        emit(out, "difftaxa", t, bad, rng, flags=[(rng.random() < 0.5, rng.random() < 0.5)])
        # every kind of taxon-multiset difference, as compared tree / as reference / inside a stream, rooted or not
        tv = taxa_variants(u if rng.random() < 0.5 else t, rng, g)
        kind_v, bad_v = rng.choice(tv)
        if rng.random() < 0.4:
            bad_v = root_on_branch(bad_v, rng, g)
        emit(out, "difftaxa-" + kind_v, t, bad_v, rng, ops=("compare", "weighted", "common"), flags=[(rng.random() < 0.5, False)])
        kind_w, bad_w = rng.choice(tv)
        emit_stream(out, "stream-difftaxa-" + kind_w, t, [clone(t), bad_w, c1, bad_v, clone(t)], rng, flags=[(rng.random() < 0.5, False)])
        # outside the quantifier: rooted trees (correspondence only)
        if rng.random() < 0.5:
            rt = g.tree(ntips=n, rooted=True, maxdeg=4, lenmode="all", supmode="mixed", up_random=True)
            emit(out, "rooted", rt, t, rng, flags=[(False, False), (True, False)])
            emit(out, "rooted", rt, clone(rt), rng, ops=("compare", "weighted"), both_orders=False, flags=[(False, False)])
    # taxon counts at machine-word boundaries of the bitsets: the same tree written from another node with reversed
    # children, a contraction, an independent tree
    def caterpillar(n):
        names = ["w%03d" % i for i in range(n)]
        rng.shuffle(names)
        sh = [names[0], names[1]]
        for x in names[2:n - 2]:
            sh = [sh, x]
        return g.decorate([sh, names[n - 2], names[n - 1]], lenmode="all", supmode="none", up_random=True)
    sizes = [31, 32, 33, 63, 64, 65, 127, 128, 129]
    reps = {"quick": 1, "thorough": 6, "search": 1}[tier]
    ws = []
    for n in sizes:
        for _ in range(reps):
            cat = caterpillar(n)
            far = reroot_at(cat, rng)
            for nd in preorder(far):
                nd["slots"].reverse()
            big = n > 100 and tier != "thorough"
            emit(ws, "wordsize-%d" % n, cat, far, rng, ops=("common",) if big else ("compare", "common"), flags=[(False, False)], both_orders=False)
            if not big:
                rnd = unrooted(g, rng, n, maxdeg=3)
                emit(ws, "wordsize-%d" % n, rnd, shuffle_children(reroot_at(rnd, rng), rng), rng, ops=("compare", "weighted"), flags=[(True, False)], both_orders=False)
                emit(ws, "wordsize-%d" % n, rnd, contraction(rnd, rng, k=3), rng, ops=("compare",), flags=[(False, True)])
    # the big trees are slow to judge: spread them over the list so that they land in different work chunks
    step = max(1, len(out) // (len(ws) + 1))
    for i, c in enumerate(ws):
        out.insert(min(len(out), (i + 1) * step), c)
    # degree boundaries: a polytomy with d neighbours (d - 1 tips and one heavy clade holding as many tips), as the root in one
    # tree and as a non-root node in the other (re-rooted inside the heavy clade, child lists reversed); nested polytomies
    def reroot_path(t, path_filter):
        b = clone(t)
        paths = []
        def walk(n, p):
            if kids(n) and p and path_filter(p):
                paths.append(p)
            for i, sl in enumerate(n["slots"]):
                if sl is not None:
                    walk(sl[1], p + [i])
        walk(b, [])
        root = b
        for i in rng.choice(paths):
            e, c = root["slots"][i]
            root["slots"][i] = None
            j = c["slots"].index(None)
            c["slots"][j] = (e, root)
            root = c
        return root
    def poly_trees(d, nested=False):
        """a node P with d neighbours: d - 2 tips, one heavy clade C (about as many tips as its siblings) and a small clade X;
        the tree written from P, from inside X (P is then a non-root node whose parent side is small) and from inside C"""
        k = d - 2
        tipsP = ["p%03d" % i for i in range(k)]
        nc = max(2, k + rng.choice([-1, 0, 1, 2]))
        hv = ["h%03d" % i for i in range(nc)]
        rng.shuffle(hv)
        if nested and nc >= 6:
            third = nc // 3
            heavy = [hv[:third], hv[third:2 * third]] + hv[2 * third:]
        else:
            heavy = [hv[0], hv[1]]
            for x in hv[2:]:
                heavy = [heavy, x]
        small = ["x0", "x1"] + (["x2"] if rng.random() < 0.5 else [])
        ch = tipsP + [heavy, small]
        rng.shuffle(ch)
        ic, ix = ch.index(heavy), ch.index(small)
        atP = g.decorate(ch, lenmode="all", supmode="none", up_random=True)
        inX = reroot_path(atP, lambda p: p[0] == ix)
        inC = reroot_path(atP, lambda p: p[0] == ic)
        for nd in preorder(inC):
            nd["slots"].reverse()
        return atP, inX, inC
    pw = []
    for d in [8, 9, 16, 17, 18, 32, 33, 64, 65]:
        for nested in ([False, True] if d <= 18 or tier == "thorough" else [False]):
            for _ in range({"quick": 1, "thorough": 4, "search": 1}[tier]):
                atP, inX, inC = poly_trees(d, nested)
                big = d > 33 and tier != "thorough"
                ops = ("common",) if big else ("compare", "weighted", "common")
                emit(pw, "degree-%d" % d, inX, atP, rng, ops=ops, flags=[(False, False)], both_orders=not big)
                if not big:
                    emit(pw, "degree-%d" % d, inX, inC, rng, ops=("compare",), flags=[(rng.random() < 0.5, False)], both_orders=False)
                    emit(pw, "degree-%d" % d, inC, contraction(inX, rng, k=2), rng, ops=("compare",), flags=[(True, False)], both_orders=False)
    step = max(1, len(out) // (len(pw) + 1))
    for i, c in enumerate(pw):
        out.insert(min(len(out), (i + 1) * step), c)
    # several workers with rejected trees at random positions (the per-tree error must stay per tree)
    parallel_cases(out, rng, g, {"quick": 6, "thorough": 60, "search": 40}[tier], {"quick": 120, "thorough": 300, "search": 400}[tier])
    # thousands of COPIES of one 100..200-tip tree through one call with 8 / 16 workers: every record must be the record
    # of the first copy (which is judged: 0 / n-3 / 0, identical)
    reps = {"quick": [(100, 2500, 8)], "thorough": [(150, 4000, 8), (200, 4000, 16), (120, 6000, 16)],
            "search": [(150, 4000, 8), (120, 4000, 16)]}[tier]
    rp = []
    for (n, k, cpus) in reps:
        big = unrooted(g, rng, n, maxdeg=3)
        for op in (("compare",) if tier == "quick" else ("compare", "weighted")):
            c = {"op": Sym(op), "t1": T(big), "t2s": [T(shuffle_children(reroot_at(big, rng), rng))], "tips": False, "ident": False,
                 "rep": k, "cpus": cpus}
            rp.append({"sx": sx(c), "meta": {"kind": "repeat", "op": op, "tips": False, "ident": False, "swapped": False,
                                             "ntips": n, "stream": k, "cpus": cpus}})
    for i, c in enumerate(rp):
        out.insert(min(len(out), 7 + 211 * i), c)
    # float sums that depend on the order: lengths 0.1, 0.2, 0.3 ... (the exact binary64 values), the same tree with another
    # child order and another root: every difference is exactly 0, the trees are identical with and without the shortcut
    for _ in range({"quick": 6, "thorough": 40, "search": 10}[tier]):
        n = rng.randint(5, 12)
        ft = unrooted(g, rng, n, maxdeg=4)
        for nd in preorder(ft):
            for i, sl in enumerate(nd["slots"]):
                if sl is not None:
                    e = dict(sl[0]); e["len"] = Fraction(rng.choice([0.1, 0.2, 0.3, 0.7, 1.1, 1e-3, 123.456, 0.30000000000000004]))
                    nd["slots"][i] = (e, sl[1])
        emit(out, "float-order", ft, shuffle_children(reroot_at(ft, rng), rng), rng, ops=("weighted", "compare"),
             flags=[(False, True), (True, True), (rng.random() < 0.5, False)], both_orders=False)
    # hash extremes: the split with hash code 0, and tip names colliding in the index
    z = zero4_trees(g)
    for i in (0, 1, 3):
        emit(out, "hash-zero", z[i], z[(i + 1) % 4 if (i + 1) % 4 != 2 else 3], rng, flags=[(False, False), (True, False)])
    emit(out, "hash-zero", z[0], z[5], rng, flags=[(False, False)])
    emit(out, "hash-zero", z[0], z[6], rng, flags=[(False, False)])
    emit_stream(out, "hash-zero", z[0], [z[1], z[3], z[5], z[6], clone(z[0])], rng, flags=[(False, False)])
    for _ in range(2):
        n = rng.randint(5, 8)
        mp = dict(zip(["t%d" % i for i in range(n)], COLLIDE[:n]))
        ct = relabel(unrooted(g, rng, n, maxdeg=4), mp); cu = relabel(unrooted(g, rng, n, maxdeg=4), mp)
        emit(out, "hash-collide", ct, cu, rng, flags=[(rng.random() < 0.5, False)])
        emit(out, "hash-collide", ct, shuffle_children(reroot_at(ct, rng), rng), rng, flags=[(False, False)], both_orders=False)
    # minimal witnesses of the design notes, always present
    names = ["a", "b", "c", "d", "e"]
    ref = from_shape(g, [["a", "b"], "c", "d", "e"], rng)            # ((a,b),c,d,e)
    ref2 = from_shape(g, [["a", "b"], ["c", "d"], "e"], rng)         # ((a,b),(c,d),e)
    star = from_shape(g, ["a", "b", "c", "d", "e"], rng)
    q1 = from_shape(g, [["a", "b"], "c", "d"], rng)                  # ((a,b),c,d)
    q0 = from_shape(g, ["a", "b", "c", "d"], rng)                    # (a,b,c,d)
    emit(out, "witness", q1, q0, rng)
    emit(out, "witness", ref, star, rng)
    emit(out, "witness", ref2, ref, rng)
    emit_stream(out, "witness-stream", q1, [clone(q1), q0, clone(q1), q0], rng)
    emit_pre(out, "witness-pre", q1, [clone(q1)], NONE, [[Sym("rename"), "a", "c"]], rng, ops=("compare", "weighted", "common"))
    emit_pre(out, "witness-pre", q1, [clone(q1)], [Sym("setname"), "b", "d"], [NONE], rng)
    emit_stream(out, "witness-stream", ref2, [clone(ref2), ref, star, clone(ref2)], rng)
    if tier == "thorough":
        for nn in (4, 5):
            shapes = [s for s in all_shapes(["t%d" % i for i in range(nn)]) if len(s) >= 3]
            for s1 in shapes:
                for s2 in shapes:
                    a = from_shape(g, s1, rng); b = from_shape(g, s2, rng)
                    emit(out, "enum", a, b, rng, ops=("compare",), both_orders=False, flags=[(False, False), (True, True)])
    return out


# ---------------------------------------------------------------- the command line: gotree compare trees
# Every command is run under no CPU restriction, pinned to ONE CPU and pinned to TWO CPUs (runtime.NumCPU() = 1 / 2),
# with --threads in {1, 2, NumCPU, NumCPU+5}; every output row is judged against the set algebra of the splits computed
# here in Python on the generated trees (exact counts per tree id); a stream containing a tree on other taxa must end
# with a non-zero exit status.

def _py_splits(t):
    allv = sorted(leaves(t))
    res = set()
    def walk(n):
        for sl in n["slots"]:
            if sl is not None:
                c = sl[1]
                if kids(c):
                    side = frozenset(leaves(c))
                    if allv[0] in side:
                        side = frozenset(allv) - side
                    res.add(side)
                walk(c)
    walk(t)
    return res

def _py_wsplits(t, tips):
    """split (side without the smallest taxon) -> branch length, tip branches included when tips"""
    allv = sorted(leaves(t))
    res = {}
    def walk(n):
        for sl in n["slots"]:
            if sl is not None:
                e, c = sl
                if kids(c) or tips:
                    side = frozenset(leaves(c))
                    if allv[0] in side:
                        side = frozenset(allv) - side
                    res[side] = Fraction(e["len"] if e["len"] is not None else 0)
                walk(c)
    walk(t)
    return res

def _expected_weighted(ref, t, tips):
    """(weighted RF, KF^2) from the terms of the specification (Coq: C08_wrf_terms, C08_kf2_terms), exact"""
    w1, w2 = _py_wsplits(ref, tips), _py_wsplits(t, tips)
    terms = [w1[s] - w2[s] for s in w1 if s in w2] + [w1[s] for s in w1 if s not in w2] + [w2[s] for s in w2 if s not in w1]
    return sum((abs(x) for x in terms), Fraction(0)), sum((x * x for x in terms), Fraction(0))

def _expected_rows(ref, trees, flags):
    if "--weighted" in flags:
        import math
        rows = {}
        for i, t in enumerate(trees):
            wrf, kf2 = _expected_weighted(ref, t, "--tips" in flags)
            rows[i] = "%E\t%E" % (float(wrf), math.sqrt(float(kf2)))
        return rows
    s1 = _py_splits(ref)
    n = len(leaves(ref))
    rows = {}
    for i, t in enumerate(trees):
        s2 = _py_splits(t)
        only1, both, only2 = len(s1 - s2), len(s1 & s2), len(s2 - s1)
        if "--binary" in flags:
            rows[i] = "true" if only1 == 0 and only2 == 0 else "false"
        elif "--rf" in flags:
            rows[i] = str(only1 + only2)
        else:
            rows[i] = "%d\t%d\t%d" % (only1, both + (n if "--tips" in flags else 0), only2)
    return rows

def extra(tier, seed, st):
    import random, shutil, subprocess
    import cli
    info = {"cli_runs": 0, "cli_rows": 0, "evaluations": 0, "distinct_nontrivial": 0}
    ok, err = cli.build_gotree()
    if not ok:
        return [("build", "gotree no longer builds: " + err[-400:], None)], info
    rng = random.Random(seed + 8)
    g = Gen(rng)
    ncpu = os.cpu_count() or 1
    taskset = shutil.which("taskset")
    affinities = [None] + ([[0], [0, 1]] if taskset and ncpu >= 2 else ([[0]] if taskset else []))
    fails = []
    d = cli.scratch("c08-")
    try:
        datasets = []
        for k in range({"quick": 3, "thorough": 12, "search": 3}.get(tier, 3)):
            n = rng.randint(5, 9)
            ref = unrooted(g, rng, n, maxdeg=4)
            trees = [shuffle_children(reroot_at(ref, rng), rng), contraction(ref, rng), unrooted(g, rng, n, maxdeg=4),
                     resolve_random(contraction(ref, rng), rng, g), clone(ref), contraction(ref, rng, k=1000)]
            rng.shuffle(trees)
            datasets.append(("same%d" % k, ref, trees, False))
            bad = list(trees)
            bad[rng.randrange(len(bad))] = rename_tip(rng.choice(trees), rng, "zz")
            datasets.append(("diff%d" % k, ref, bad, True))
        flagsets = [[], ["--tips"], ["--binary"], ["--rf"], ["--tips", "--binary"], ["--weighted"], ["--weighted", "--tips"]]
        for name, ref, trees, rejected in datasets:
            rf = os.path.join(d, name + ".ref.nw")
            cf = os.path.join(d, name + ".cmp.nw")
            open(rf, "w").write(newick(ref) + "\n")
            open(cf, "w").write("".join(newick(t) + "\n" for t in trees))
            for aff in affinities:
                nc = len(aff) if aff else ncpu
                for thr in sorted(set([1, 2, nc, nc + 5])):
                    flags = flagsets[(info["cli_runs"]) % len(flagsets)]
                    argv = ["compare", "trees", "-i", rf, "-c", cf, "-t", str(thr)] + flags
                    pre = ([taskset, "-c", ",".join(map(str, aff))] if aff else [])
                    try:
                        p = subprocess.run(pre + [cli.GOTREE] + argv, cwd=d, stdout=subprocess.PIPE, stderr=subprocess.PIPE, timeout=60)
                        rc, out, errb = p.returncode, p.stdout.decode("utf-8", "replace"), p.stderr.decode("utf-8", "replace")
                    except subprocess.TimeoutExpired:
                        rc, out, errb = -9, "", "timeout"
                    info["cli_runs"] += 1
                    body = {"argv": argv, "affinity": aff, "ref": newick(ref), "trees": [newick(t) for t in trees], "rc": rc,
                            "stdout": out[-2000:], "stderr": errb[-500:]}
                    what = "gotree %s (cpus available: %s)" % (" ".join(argv[:2] + argv[6:]), len(aff) if aff else "all")
                    if rc == -9:
                        fails.append(("cli-compare", what + ": no answer within 60 s", body)); continue
                    if rejected:
                        if rc == 0:
                            fails.append(("cli-compare", what + ": a stream with a tree on other taxa ends with exit status 0 (not rejected)", body))
                        continue
                    if rc != 0:
                        fails.append(("cli-compare", what + ": exit status %d on trees on the same taxa: %s" % (rc, errb[-200:]), body)); continue
                    lines = [l for l in out.split("\n") if l.strip() != ""]
                    exp = _expected_rows(ref, trees, flags)
                    if "--rf" in flags:
                        got = sorted(lines)
                        if got != sorted(exp.values()):
                            fails.append(("cli-compare", what + ": RF distances %s, the split sets give %s" % (got, sorted(exp.values())), body))
                        info["cli_rows"] += len(lines)
                        continue
                    rows = {}
                    for l in lines[1:]:
                        parts = l.split("\t", 1)
                        if len(parts) == 2 and parts[0].isdigit():
                            rows[int(parts[0])] = parts[1]
                    info["cli_rows"] += len(rows)
                    if len(lines) < 1 or not lines[0].startswith("tree"):
                        fails.append(("cli-compare", what + ": no header line", body)); continue
                    if sorted(rows) != list(range(len(trees))):
                        fails.append(("cli-compare", what + ": %d rows for %d compared trees (ids %s)" % (len(rows), len(trees), sorted(rows)), body)); continue
                    bad_rows = [(i, rows[i], exp[i]) for i in range(len(trees)) if rows[i] != exp[i]]
                    if bad_rows:
                        i, gotr, e = bad_rows[0]
                        fails.append(("cli-compare", what + ": tree %d: printed %r, the split sets give %r" % (i, gotr, e), body))
        info["evaluations"] = info["cli_rows"]
    finally:
        shutil.rmtree(d, ignore_errors=True)
    return fails[:5], info
