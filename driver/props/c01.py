"""C01: Newick write/parse round trip preserves the whole tree."""
from lib import *
import random

PROP = "C01"
PAR_OK = True
LEVEL = "proof"
RULE = ("op roundtrip: random trees inside the quantifier (2..14 tips, thorough ..40; rooted / unrooted / root of degree up to 6, "
        "multifurcations, inner nodes with a single child, parent slot at random positions; tip names plain, with interior blanks, "
        "quotes, UTF-8, '/' and numeric-looking (12, 1e5, 0x1p-2, inf, nan, 1_0, -3.5); inner/root names empty or non-numeric "
        "(a/b, 1/x, 5x); lengths absent/0/dyadic k/64, k/1024, k/2^20, negative, integers, arbitrary binary64 values incl. 5e-324 and 1.7976931348623157e308; supports with and without p-values on unnamed "
        "inner nodes; 0..3 node and root comments and at most one branch comment (only with a length) with hostile content "
        ";,():[ blanks tabs newlines, empty), plus trees outside the quantifier (support on tips or named nodes, two branch "
        "comments, branch comment without length, names with metacharacters / surrounding blanks / numeric inner names, ']' in "
        "comments, empty tip names, root with one child, NUL or invalid UTF-8 in names/comments) for the correspondence only; op parse: valid texts with blanks inserted "
        "between tokens, truncations, splices, character and raw-byte mutations/insertions/deletions (NUL, invalid UTF-8) of valid texts and a fixed list of "
        "hand-written edge cases; a deterministic sweep of special code points (BOM, zero-width, no-break and other Unicode spaces, NEL, line/paragraph separators, soft hyphen, "
        "U+FFFD, combining, bidi controls, astral characters, characters whose UTF-8 bytes are high-bit variants of the metacharacters, C0 controls, DEL) at the start, middle and end of tip, "
        "inner and root names and of node, root and branch comments; a deterministic buffer-boundary sweep (one-line texts of 4.5-20 KB, thorough 70 KB, in which each character class legal "
        "in the quantifier -- ; ( ) , : [ blank CR in comments, blank quote tab '/' and multi-byte characters in names, digits . - / of numbers, the structural "
        "characters, the final ';' -- is placed at byte offsets B-2..B+1, B = 4096, 8192, 65536, by padding the first tip name); every text is also read through "
        "utils.ReadMultiTrees/ReadUntilSemiColon and compared with Model/MultiTree.v; number texts (long decimals, exponents, hex floats, underscores, halfway and overflow/underflow boundaries) in length and support position; a case is non-trivial when it is a round trip inside the quantifier or an accepted text; "
        "distinct = distinct case text")
TRUSTED = ["tree built through NewNode/NewEdge + verif hooks (exact neighbour order); dump through Neigh()/Edges()/Left()/Right()",
           "strconv.ParseFloat / FormatFloat are re-implemented in Model/NewickNum.v (syntax of readFloat/special/underscoreOK, "
           "correct rounding to binary64, shortest digits that read back, %f layout) and compared with the real ones through every case; "
           "proved about the re-implementation: every finite binary64 value prints to digits/'.'/'-' only and reads back (C01_numok_binary64, C01_fmt_go_chars)"]
ASSUMPTIONS = ["strconv: FormatFloat(x,'f',-1,64) of a finite x is non-empty, free of ()[],:;/ and blanks, and ParseFloat reads it back "
               "to x (Section hypotheses of the round-trip theorem; instantiated for exact finite decimals)",
               "names and comments are valid UTF-8 text without NUL (the reader decodes runes, replaces undecodable bytes by U+FFFD and takes "
               "rune 0 for the end of input: both are modelled, and such trees are read as outside the quantifier, DESIGN 3.3); -0 is not modelled"]
LEVEL_TEXT = "proof"
LEVEL_NOTE = ""

META = "()[],:;"


def fdec(x):
    """exact decimal text of a dyadic Fraction"""
    x = Fraction(x)
    s = "-" if x < 0 else ""
    x = abs(x)
    ip = x.numerator // x.denominator
    r = x.numerator % x.denominator
    ds = []
    while r and len(ds) < 40:
        r *= 10
        ds.append(str(r // x.denominator))
        r %= x.denominator
    return s + str(ip) + ("." + "".join(ds) if ds else "")

def nw(t, top=True):
    """reference Newick text of a node dict (same layout as the Go writer), used to seed the malformed stream"""
    k = kids(t)
    s = ""
    if len(t["slots"]) > 1:
        parts = []
        for e, c in k:
            p = nw(c, False)
            if e["sup"] is not None and c["name"] == "":
                p += fdec(e["sup"])
                if e["pv"] is not None:
                    p += "/" + fdec(e["pv"])
            p += "".join("[%s]" % x for x in c["coms"])
            if e["len"] is not None:
                p += ":" + fdec(e["len"])
            p += "".join("[%s]" % x for x in e["coms"])
            parts.append(p)
        s = "(" + ",".join(parts) + ")"
    s += t["name"]
    if top:
        s += "".join("[%s]" % x for x in t["coms"]) + ";"
    return s

TIP_PLAIN = ["A", "B", "tip", "Homo_sapiens", "x1", "T", "F", "U", "N", "D"]
TIP_ODD = ["a b", "'quoted name'", "\"dq\"", "a  b c", "é", "α β", "x/y", "1/2", "3/x", "a|b", "k=v", "a'b", "#1", "-", "+", "_", ".",
           "a\tb", "a{1}", "x*", "100%", "a\\b", "naïve", "a.b", "e5", "0x", "1e", "--1", "a\nb", "a\u00a0b", "x\u2003y", "日本", "a\rb", "1__0", "+nan", "infinit"]
TIP_NUM = ["12", "1e5", "0x1p-2", "-3.5", "1_0", "inf", "nan", "Infinity", "+inf", "0", "1.5", ".5", "5.", "1E-3", "0X1P+4", "007", "1e999", "-0",
           "1e+5", "0x1.8p1", "+.5e-3", "1_000.5", "-inf", "NaN", "0x_1p0", "1e1_0"]
INNER_OK = ["I1", "node 7", "a/b", "1/x", "x/2", "5x", "1/2/3", "Clade_A", "é", "n.1", "e1", "0x1", "1e", "p=0.5", "1//2", "/", "1/", "/2",
            ".", "-", "+", "_", "1_", "0x", "infinit", "nanx", "i", "1__0", "1e+", "0x1p", "--1", "1.2.3", ".e1", "0b1", "1f", "+nan", "1e_1", "0x1e5",
            "0.5/x", "inf/x", "1/0x", "a\u00a0b", "1 2", "0.5 x"]
COMS = ["c", "&x=1", "a b", "k:v", "z,w", "(p)", "q;r", "", " lead", "trail ", "a[b", "[[", "&&NHX:S=x:E=1.1", "a\tb", "l1\nl2", ";", ":", ",", "(", ")",
        "  ", "x=[1", "0.5", "é", "a/b", "';'"]

class G(Gen):
    def num(self, kind):
        rng = self.rng
        r = rng.random()
        if kind == "len":
            if r < 0.10: return Fraction(0)
            if r < 0.55: return Fraction(rng.randrange(0, 513), 64)
            if r < 0.80: return Fraction(rng.randrange(1, 4097), 1024)
            if r < 0.88: return Fraction(rng.randrange(1, 10**6))
            if r < 0.92: return -Fraction(rng.randrange(1, 257), 64) if rng.random() < 0.9 else Fraction(-2)
            if r < 0.95: return Fraction(rng.randrange(1, 2**20), 2**20)
            # arbitrary binary64 values: 17 significant digits, tiny, huge, subnormal
            if r < 0.997: return Fraction(rng.random() * 10.0 ** rng.randrange(-8, 9))
            return Fraction(rng.choice([5e-324, 1.7976931348623157e308, 2.2250738585072014e-308, 1e21, 1e22, 1e23, 0.1, 0.30000000000000004,
                                        1e-7, 123456789012345680.0, 4503599627370496.5, 9007199254740992.0, 1e-320, 0.000001]))
        # support / p-value
        if r < 0.1: return Fraction(rng.choice([0, 1, 100]))
        if r < 0.8: return Fraction(rng.randrange(0, 65), 64)
        if r < 0.9: return Fraction(rng.randrange(0, 1025), 1024)
        if r < 0.94: return Fraction(rng.random())
        if r < 0.97: return -Fraction(rng.randrange(1, 64), 64)
        return Fraction(rng.randrange(0, 101))

    def fix(self, x):
        # -1 is the absent sentinel
        return Fraction(-3, 2) if x == -1 else x

    def coms(self, p):
        rng = self.rng
        if rng.random() >= p:
            return []
        return [rng.choice(COMS) for _ in range(rng.choice([1, 1, 1, 2, 2, 3]))]

    def tipname(self, used):
        rng = self.rng
        r = rng.random()
        if r < 0.45:
            n = "%s%d" % (rng.choice(TIP_PLAIN), len(used))
        else:
            n = rng.choice(TIP_ODD if r < 0.75 else TIP_NUM)
            if n in used:
                n = "t%d" % len(used)
        used.add(n)
        return n

    def wf_tree(self, hi=14):
        """a tree inside the quantifier of C01"""
        rng = self.rng
        n = rng.choice([2, 2, 3, 3, 4, 5, 6, 7, 8, 10, 12, hi])
        rooted = rng.random() < 0.4
        rootdeg = 2 if (rooted or n == 2) else min(n, rng.choice([3, 3, 3, 4, 5, 6]))
        used = set()
        names = [self.tipname(used) for _ in range(n)]
        sh = self.shape(names, maxdeg=rng.choice([2, 3, 4, 6]), rootdeg=rootdeg)
        lenp = rng.choice([0.0, 0.5, 0.9, 1.0])
        supp = rng.choice([0.0, 0.5, 1.0])
        comp = rng.choice([0.0, 0.0, 0.3, 0.7])
        namep = rng.choice([0.0, 0.3, 0.8])
        up_random = rng.random() < 0.5
        def edge(child_is_named):
            e = {"len": None, "sup": None, "pv": None, "coms": []}
            if rng.random() < lenp:
                e["len"] = self.fix(self.num("len"))
                if rng.random() < comp * 0.6:
                    e["coms"] = [rng.choice(COMS)]
            if not child_is_named and rng.random() < supp:
                e["sup"] = self.fix(self.num("sup"))
                if rng.random() < 0.35:
                    e["pv"] = self.fix(self.num("sup"))
            return e
        def mk(s, is_root):
            if not isinstance(s, list):
                node = {"name": s, "coms": self.coms(comp), "slots": [None]}
                # an inner node with a single child above a tip, sometimes
                if rng.random() < 0.04:
                    inner = {"name": rng.choice(["", "", "S1"]), "coms": self.coms(comp), "slots": [None, (edge(True), node)]}
                    return inner
                return node
            name = rng.choice(INNER_OK) if rng.random() < namep else ""
            slots = []
            for ch in s:
                c = mk(ch, False)
                slots.append((edge(c["name"] != ""), c))
            if not is_root:
                slots.insert(rng.randrange(0, len(slots) + 1) if up_random else 0, None)
            return {"name": name, "coms": self.coms(comp), "slots": slots}
        return mk(sh, True)

    def break_tree(self, t):
        """push a tree outside the quantifier in one way; returns the label"""
        rng = self.rng
        nodes = [(None, t)] + [(e, c) for n in preorder(t) for (e, c) in kids(n)]
        inner = [(e, c) for (e, c) in nodes[1:] if kids(c)]
        tips = [(e, c) for (e, c) in nodes[1:] if not kids(c)]
        what = rng.choice(["tipsup", "namedsup", "twoecom", "ecomnolen", "metaname", "blankname", "numinner", "brackcom",
                           "emptytip", "pvonly", "numroot", "innerblank", "root1", "nultext", "badutf8"])
        if what == "tipsup" and tips:
            e, c = rng.choice(tips); e["sup"] = Fraction(1, 2)
        elif what == "namedsup" and inner:
            e, c = rng.choice(inner); c["name"] = c["name"] or "X"; e["sup"] = Fraction(3, 4); e["pv"] = rng.choice([None, Fraction(1, 4)])
        elif what == "twoecom":
            e, c = rng.choice(nodes[1:]); e["len"] = e["len"] if e["len"] is not None else Fraction(1, 2); e["coms"] = ["e1", "e2"]
        elif what == "ecomnolen":
            e, c = rng.choice(nodes[1:]); e["len"] = None; e["coms"] = ["ec"]
        elif what == "metaname":
            e, c = rng.choice(nodes); c["name"] = rng.choice(["a(b", "a)b", "a,b", "a:b", "a;b", "a[b", "a]b", "(", ":1", "x:0.5", "[c]", "a,b:1"])
        elif what == "blankname":
            e, c = rng.choice(tips); c["name"] = rng.choice([" a", "a ", " a ", "\ta", "a\n", " ", "a ", " a", "a\x0b", "\x0ca"])
        elif what == "innerblank" and inner:
            e, c = rng.choice(inner); c["name"] = rng.choice([" a", "a ", " a ", "a "]); e["sup"] = None; e["pv"] = None
        elif what == "numinner" and inner:
            e, c = rng.choice(inner); c["name"] = rng.choice(["12", "0.5", "1e5", "0.5/0.25", "1/2", "inf/1", "0x1p-2", "1_0", "1e999", ".5/5.", "0x1.8p1", "1_000", "+1", "1e-5", "-inf", "Infinity",
                                                                   ".5", "-1", "-1/-1", "1e5/0x1p1", "0.1", "0.1/0.2"]); e["sup"] = None; e["pv"] = None
        elif what == "numroot":
            t["name"] = rng.choice(["12", "0.5", "1/2", "1e5"])
        elif what == "brackcom":
            e, c = rng.choice(nodes); c["coms"] = [rng.choice(["a]b", "]", "x]", "]y"])]
        elif what == "emptytip":
            e, c = rng.choice(tips); c["name"] = ""
        elif what == "pvonly" and inner:
            e, c = rng.choice(inner); c["name"] = ""; e["sup"] = None; e["pv"] = Fraction(1, 8)
        elif what == "nultext":
            e, c = rng.choice(nodes)
            if rng.random() < 0.5: c["name"] = rng.choice(["A\x00B", "\x00", "A\x00", "\x00A"])
            else: c["coms"] = [rng.choice(["c\x00d", "\x00", "x\x00"])]
        elif what == "badutf8":
            e, c = rng.choice(nodes)
            bad = rng.choice(["A\udcff", "\udcc3", "x\udce2\udc82", "\udc80y", "\udced\udca0\udc80", "\udcc0\udcaf", "ok\udcf4\udc90\udc80\udc80", "\udcc3\udca9\udcc3"])
            if rng.random() < 0.6: c["name"] = bad
            else: c["coms"] = [bad]
        elif what == "root1":
            (e, c) = kids(t)[0]
            t["slots"] = [(e, c)]
        return what

CHARS = list("()[],:;") * 6 + list("0123456789") * 2 + list(".-+e/_xp") + list("ABab") + [" ", " ", "\t", "\n", "\r", "'", "\"", "]", "[", ";"]

HAND = [
    "(A,B);", "(A,B)", "(A,B);;", "(A,B); junk", " (A,B) ; ", "\n(A,\n B)\n;\n", "();", "(A);", "(,);", "(,A);", "(A,);", "((,),);", "A;", ";", "", " ",
    "[c](A,B);", "[c] (A,B);", "[c", "[c]", "[c][d](A,B);", " [ a;b ] (A,B);", "(A,B)[c];", "(A,B)r[c][d];", "(A,B):0.5;", "(A,B):0.5[c];", "(A,B)r:0.5[c];",
    "(A,B)0.5;", "(A,B)12:1;", "(A(B))x/y;", "(A(B))xy;", "(A(B,C),D);", "(A(B))1/y;", "(A(B))1/2;", "(A(B))x/y[c];", "(A(B))x/y:1;", "(A(B)x/y);",
    "(A,B),(C,D);", "(A,B),;", "(A,B),", "(A))(;", "(A))(B;", "(A,B))(C,D);", "(A,B)(C,D);", "((A,B),(C,D));", "(A,B));", "((A,B);", "(((A,B);",
    "(A:1,B:2);", "(A:1:2,B);", "(A:-1:2,B);", "(A:,B);", "(A:x,B);", "(A: 1,B);", "(A:1 ,B);", "(A :1,B);", "(A:1e5,B:0x1p-2);", "(A:1_0,B:.5);", "(A:1e999,B);",
    "(A:inf,B);", "(A:nan,B);", "((A,B)inf,C);", "((A,B)1/inf,C);", "(inf,nan);", "(A:0.1,B:0.30000000000000004);", "(A:1e-400,B:4.9e-324);", "(A:1.7976931348623157e308,B);",
    "(A:1.7976931348623159e308,B);", "(A:0.000000000000000000001,B:123456789012345678901234567890);", "(A:2.4703282292062328e-324,B:2.4703282292062327e-324);",
    "(A:9007199254740993,B:9007199254740992.5);", "(A:0x1.fffffffffffff8p0,B:0x1.fffffffffffff7p0);", "(A:1e23,B:8.5e-1);", "(A:-0,B:+5);",
    "((A,B)0.9,C);", "((A,B)0.9/0.01,C);", "((A,B)0.9/x,C);", "((A,B)x/0.9,C);", "((A,B)0.9/0.01/3,C);", "((A,B)0.9 ,C);", "((A,B) 0.9,C);", "((A,B)0.9name,C);",
    "((A,B)name0.9,C);", "((A,B)0.9[c]:1[d],C);", "((A,B)0.9:1[d][e],C);", "((A,B)[c]0.9,C);", "((A,B)n[c]m,C);", "((A,B):1 0.9,C);", "((A,B):1n,C);",
    "(A[c],B[d][e]);", "(A[c]:1[e],B);", "(A[c,B);", "(A]c,B);", "(A[];],B);", "(A[[]],B);", "(A[(,:;],B);", "([c]A,B);", "(A,[c]B);", "(A,B[c]x);", "(A:[c]1,B);",
    "(A B,C);", "(A  ,  B);", "( A , B );", "('A B',C);", "(A\tx,C);", "(A,B)  name  ;", "(A,B) name;", "(12,1e5);", "(0x1p-2,1_0);", "((12,B)13,C);",
    "(A,B)name[c]:1;", "(A,B)1;", "(A,B)1/2;", "(A,B)x/y;", "(A,(B,C)x/y)z/w;", "((A,B)x/y);", "((A,B)x/y)", "((A,B)x/y", "(A,(B,C)x/y[c", "((B,C)x/y,(D,E)1/q);",
    "(((((((((((A,B),C),D),E),F),G),H),I),J),K),L);", "(A,B,C,D,E,F,G,H,I,J,K,L,M,N,O,P);", "((((((((((A))))))))));", "(A,(B,(C,(D,(E,(F,(G,(H,(I,J)))))))));",
    "(A,B)\x00;", "(A,B\x00C);", "(A\x00,B);", "\x00(A,B);", "(A,B);\x00", "(A[c\x00d],B);", "(A:1\x00,B);", "(A \x00 ,B);", " \x00 (A,B);", "(A,B) \x00 ;",
    b"(A\xff,B);", b"(\xc3,B);", b"(A\xe2\x82,B);", b"(\xe2\x82\xac,B);", b"(A\x80\x80,B);", b"(\xf0\x9f\x98\x80,\xf0\x9f\x98);", b"(\xed\xa0\x80,B);", b"(\xc0\xaf,\xe0\x80\xaf);",
    b"(A\xc2\xa0,\xc2\xa0B);", b"(A\xc2,B\xe2\x80);", b"(\xf4\x90\x80\x80,B);", b"(\xef\xbf\xbd,B);", b"(A[\xff],B);",
    "(A;B);", "(A,B;C);", "(A,B)[;];", "(A[;],B);", "(A:1;,B);", "(:1,B);", "(A,:1);", "(,:1);", "(:1);", ":1;", "(A,B):1:2;", "(A,B)x:1y;", "(A,B)[c]x;",
]

def mutate(rng, s):
    cs = list(s)
    for _ in range(rng.choice([1, 1, 1, 2, 3])):
        r = rng.random()
        if r < 0.4 and cs:
            cs[rng.randrange(len(cs))] = rng.choice(CHARS)
        elif r < 0.7:
            cs.insert(rng.randrange(len(cs) + 1), rng.choice(CHARS))
        elif r < 0.9 and cs:
            del cs[rng.randrange(len(cs))]
        elif cs:
            i = rng.randrange(len(cs)); j = min(len(cs), i + rng.randrange(1, 6))
            k = rng.randrange(len(cs) + 1)
            cs[k:k] = cs[i:j]
    return "".join(cs)

def mutate_bytes(rng, s):
    """byte-level damage: any byte value (NUL, stray continuation bytes, truncated sequences)"""
    b = bytearray(s.encode("utf-8", "surrogateescape"))
    for _ in range(rng.choice([1, 1, 2, 3])):
        r = rng.random()
        x = rng.choice([0, 0, 0x80, 0xbf, 0xc2, 0xc3, 0xe2, 0xed, 0xf0, 0xf4, 0xff, 0xa0, 0x85]) if rng.random() < 0.6 else rng.randrange(256)
        if r < 0.4 and b:
            b[rng.randrange(len(b))] = x
        elif r < 0.8:
            b.insert(rng.randrange(len(b) + 1), x)
        elif b:
            del b[rng.randrange(len(b))]
    if rng.random() < 0.2:
        b = b[:rng.randrange(len(b) + 1)]
    return bytes(b)

def spaced(rng, s):
    """insert blanks around the structural characters outside comments"""
    out = []
    depth = 0
    for ch in s:
        if ch == "[": depth += 1
        if depth == 0 and ch in "(),:;[" and rng.random() < 0.4:
            out.append(rng.choice([" ", "  ", "\n", "\t", " \r\n"]))
        out.append(ch)
        if ch == "]" and depth > 0: depth -= 1
        if depth == 0 and ch in "(),:;]" and rng.random() < 0.4:
            out.append(rng.choice([" ", "\n", "\t "]))
    return "".join(out)

NUMS = ["9007199254740993", "9007199254740992.5", "9007199254740994.999", "1.00000000000000011102230246251565404236316680908203125",
        "1.000000000000000111022302462515654042363166809082031250000001", "1.00000000000000011102230246251565404236316680908203124999",
        "4.9406564584124654e-324", "2.4703282292062327e-324", "2.4703282292062328e-324", "8.98846567431158e307", "1.7976931348623158e308",
        "1.797693134862315807e308", "179769313486231580793728971405303415079934132710037826936173778980444968292764750946649017977587207096330286416692887910946555547851940402630657488671505820681908902000708383676273854845817711531764475730270069855571366959622842914819860834936475292719074168444365510704342711559699508093042880177904174497791.9",
        "1e-310", "0.000000000000000000000000000000000000000000001e-300", "123456789012345678901234567890", "0.1234567890123456789e-5", "1e23", "1e22", "5e-324", "3e-324",
        "0x1p-1074", "0x1p-1075", "0x1.8p-1075", "0x1.fffffffffffffp1023", "0x1.fffffffffffff8p1023", "0x1.fffffffffffff7ffp1023", "0x.8p1", "0X1.P+0", "0x1.00000000000008p0",
        "0x1.000000000000080001p0", "0x1.00000000000018p0", "1_0.0_1", "1_e5", "1e5_", "0_1", "0x1_p1", "1.e1", ".e1", "1e-0", "-0.0", "+0", "00.100", "1e0000000001", "1e00000000000000000000"]

def numtext(rng):
    r = rng.random()
    if r < 0.3:
        return rng.choice(NUMS)
    if r < 0.6:
        # well-formed decimal with many digits and an exponent
        ip = "".join(rng.choice("0123456789") for _ in range(rng.randrange(0, 25)))
        fp = "".join(rng.choice("0123456789") for _ in range(rng.randrange(0, 25)))
        t = rng.choice(["", "-", "+"]) + ip + ("." + fp if (fp or rng.random() < 0.2) else "")
        if rng.random() < 0.5:
            t += rng.choice("eE") + rng.choice(["", "-", "+"]) + str(rng.choice([0, 1, 5, 15, 22, 23, 300, 308, 309, 320, 324, 330, 400, 5000, 99999, 123456]))
        return t
    if r < 0.75:
        hd = "".join(rng.choice("0123456789abcdefABCDEF") for _ in range(rng.randrange(0, 18)))
        hf = "".join(rng.choice("0123456789abcdef") for _ in range(rng.randrange(0, 18)))
        return rng.choice(["", "-"]) + rng.choice(["0x", "0X"]) + hd + ("." + hf if hf else "") + rng.choice(["p", "P", ""]) + rng.choice(["", "-", "+"]) + str(rng.choice([0, 1, 52, 53, 970, 1023, 1024, 1074, 1075, 1100, 20000]))
    return "".join(rng.choice("0123456789.eE+-_xXpPabfinINF") for _ in range(rng.randrange(1, 9)))

def caterpillar(n, rng):
    t = {"name": "t0", "coms": [], "slots": [None]}
    for i in range(1, n):
        tip = {"name": "t%d" % i, "coms": [], "slots": [None]}
        e1 = {"len": Fraction(i % 7, 64), "sup": None, "pv": None, "coms": []}
        e2 = {"len": Fraction(1, 2), "sup": Fraction(1, 4) if t["slots"] != [None] and t["name"] == "" else None, "pv": None, "coms": []}
        inner = {"name": "", "coms": [], "slots": [None, (e1, tip), (e2, t)] if i < n - 1 else [(e1, tip), (e2, t)]}
        t = inner
    return t

# ---------------------------------------------------------------- buffer boundaries
# Big one-line texts (4.5-20 KB, thorough also 70 KB) in which one character of each class that is
# legal inside the quantifier is placed at byte offsets B-2 .. B+1 of the text, B a multiple of the
# 4096-byte bufio buffer the readers use, by padding the name of the first tip.

def _tipn(name, coms=None):
    return {"name": name, "coms": coms or [], "slots": [None]}

def _edge(l=None, sup=None, pv=None, coms=None):
    return {"len": l, "sup": sup, "pv": pv, "coms": coms or []}

def _clade(name, kids_, coms=None):
    return {"name": name, "coms": coms or [], "slots": [None] + kids_}

def _filler(frng, i):
    """a small decorated clade; no line feed, every decoration of the quantifier"""
    a = _tipn("f%da" % i, ["c%d" % i] if i % 3 == 0 else [])
    b = _tipn("f%d b" % i)
    c = _tipn("%d" % (1000 + i))
    inner = _clade("" if i % 2 else "I%d" % i, [(_edge(Fraction(i % 64, 64)), a), (_edge(Fraction(1 + i % 7, 1024), coms=["e;%d" % i] if i % 5 == 0 else []), b)],
                   ["n(%d)" % i] if i % 4 == 0 else [])
    e = _edge(Fraction(3 * i % 128, 64), sup=None if inner["name"] else Fraction(i % 65, 64), pv=None)
    if e["sup"] is not None and i % 6 == 1:
        e["pv"] = Fraction(1, 1024)
    return [(e, inner), (_edge(Fraction(-(i % 5) - 2, 8)), c)]

# class -> (node builder, marker bytes, offsets within the marker to align)
def _target(cls):
    m = "QzX"   # unique marker prefix
    if cls.startswith("com"):          # a character inside a node comment
        ch = {"com;": ";", "com(": "(", "com)": ")", "com,": ",", "com:": ":", "com[": "[", "com;sp": "; \t ", "comcr": "\r", "comsp": " "}[cls]
        mark = m + ch + "zQ"
        return (_edge(Fraction(1, 2)), _tipn("T", [mark])), mark.encode(), [len(m)]
    if cls == "ecom;":                 # inside a branch comment
        mark = m + ";zQ"
        return (_edge(Fraction(1, 2), coms=[mark]), _tipn("T")), mark.encode(), [len(m)]
    if cls.startswith("name"):         # inside a tip name: blank, quotes, tab, multi-byte characters
        ch = {"name ": " ", "name'": "'", 'name"': '"', "name\t": "\t", "nameutf8": "\u00e9\u20ac\U0001f600", "name/": "/"}[cls]
        mark = m + ch + "zQ"
        offs = list(range(len(m.encode()), len((m + ch).encode())))
        return (_edge(Fraction(1, 2)), _tipn(mark)), mark.encode(), offs
    if cls == "number":                # digits, '.', '-', '/' of printed numbers and the ':' in front
        inner = _clade("", [(_edge(), _tipn("Ta")), (_edge(), _tipn("Tb"))])
        e = _edge(Fraction(-7654321, 1024), sup=Fraction(15, 16), pv=Fraction(1, 1024))
        mark = ")0.9375/0.0009765625:-7474.9228515625"
        return (e, inner), mark.encode(), [1, 7, 8, 20, 21, 26, 37]
    if cls == "struct":                # the structural characters themselves
        inner = _clade("QzN", [(_edge(Fraction(1, 2)), _tipn("QzA", ["k"])), (_edge(Fraction(1, 4), coms=["e"]), _tipn("QzB"))], ["c1", "c2"])
        mark = ",(QzA[k]:0.5,QzB:0.25[e])QzN[c1][c2]:3"
        return (_edge(Fraction(3)), inner), mark.encode(), [0, 1, 5, 7, 8, 12, 21, 24, 25, 28, 36]
    raise ValueError(cls)

BOUNDARY_CLASSES = ["com;", "com(", "com)", "com,", "com:", "com[", "com;sp", "comcr", "comsp", "ecom;",
                    "name ", "name'", 'name"', "name\t", "nameutf8", "name/", "number", "struct"]

_FILL_LEN = {}

def boundary_tree(cls, B, off_in_mark, delta, tail):
    """tree whose text has byte [off_in_mark] of the class marker at offset B+delta"""
    frng = random.Random(B * 31 + len(cls))
    target, mark, _ = _target(cls)
    pad = _tipn("P")
    def build(nfill):
        kids_ = [(_edge(Fraction(1, 64)), pad)]
        for i in range(nfill):
            kids_ += _filler(frng, i)
        kids_.append(target)
        for i in range(tail):
            kids_ += _filler(frng, 5000 + i)
        return {"name": "", "coms": ["root;c"], "slots": kids_}
    # as many fillers as fit in front of the target
    base = nw(build(0)).encode("utf-8").find(mark) + off_in_mark
    nfill = 0
    while True:
        key = nfill
        if key not in _FILL_LEN:
            _FILL_LEN[key] = len(nw({"name": "", "coms": [], "slots": _filler(frng, key)}).encode("utf-8")) - 2
        if base + _FILL_LEN[key] > B - 40:
            break
        base += _FILL_LEN[key]
        nfill += 1
    t = build(nfill)
    txt = nw(t).encode("utf-8")
    idx = txt.find(mark)
    assert idx >= 0 and txt.find(mark, idx + 1) < 0, cls
    shift = B + delta - (idx + off_in_mark)
    assert shift >= 0, (cls, shift)
    pad["name"] = "P" + "p" * shift
    return t

def gen_boundary(tier):
    out = []
    Bs = [4096, 8192] + ([65536] if tier == "thorough" else [])
    for cls in BOUNDARY_CLASSES:
        offs = _target(cls)[2]
        for B in Bs:
            # all alignments of the first marker offset; the other offsets of the class on a rotating delta
            plan = [(offs[0], d) for d in (-2, -1, 0, 1)]
            for k, o in enumerate(offs[1:]):
                plan += [(o, d) for d in (((-1, 0) if k % 2 else (0, 1)) if tier != "thorough" else (-2, -1, 0, 1))]
            if tier == "search":
                plan = plan[:2]
            for k, (o, d) in enumerate(plan):
                t = boundary_tree(cls, B, o, d, tail=(8 if k % 2 else 1))
                out.append({"sx": sx({"op": Sym("roundtrip"), "tree": T(t)}),
                            "meta": {"op": "roundtrip", "kind": "boundary:" + cls, "B": B, "delta": d}})
    # the final ';' of the text itself at the boundary
    for B in Bs:
        for d in (-2, -1, 0, 1):
            frng = random.Random(B)
            pad = _tipn("P")
            kids_ = [(_edge(Fraction(1, 64)), pad)]
            i = 0
            while len(nw({"name": "", "coms": [], "slots": kids_}).encode()) < B - 200:
                kids_ += _filler(frng, i); i += 1
            t = {"name": "", "coms": [], "slots": kids_}
            n = len(nw(t).encode())
            pad["name"] = "P" + "p" * (B + d - (n - 1))
            out.append({"sx": sx({"op": Sym("roundtrip"), "tree": T(t)}),
                        "meta": {"op": "roundtrip", "kind": "boundary:end", "B": B, "delta": d}})
    return out

# ---------------------------------------------------------------- special code points
# Code points that text processing tends to treat specially, at the start, in the middle and at the end of every
# kind of name and comment.  The lexer's blanks are ' ' \t \n \r only; Parse trims tip names with unicode.IsSpace
# (U+0085 U+00A0 U+1680 U+2000-200A U+2028 U+2029 U+202F U+205F U+3000): a name that starts or ends with one of
# those is outside the quantifier (the judge decides with the model's TrimSpace), everything else is inside.
SPECIAL_CPS = ["\ufeff", "\u200b", "\u200c", "\u200d", "\u00a0", "\u0085", "\u2028", "\u2029", "\u00ad", "\ufffd", "\u0301",
               "\U0001f600", "\U00010348", "\u2003", "\u3000", "\u1680", "\u202f", "\u205f", "\u180e", "\u2060", "\u061c", "\u200e", "\u202e",
               # UTF-8 bytes that are the high-bit variants of ( ) , : ; [ ]
               "\u00e8", "\u00e9", "\u00ec", "\u00fa", "\u00fb", "\u06db", "\u075d", "\u2a28", "\u2b3a", "\U0001a8a9", "\u007f", "\u0001", "\u001f"]

def gen_special(tier):
    out = []
    def tree(place, txt):
        a = _tipn("A"); b = _tipn("B"); c = _tipn("C")
        inner = _clade("", [(_edge(Fraction(1, 2)), a), (_edge(), b)])
        ein = _edge(Fraction(1, 4))
        root = {"name": "", "coms": [], "slots": [(ein, inner), (_edge(Fraction(3, 4)), c)]}
        if place == "tip": a["name"] = txt
        elif place == "inner": inner["name"] = txt
        elif place == "root": root["name"] = txt
        elif place == "tipcom": a["coms"] = ["k", txt]
        elif place == "innercom": inner["coms"] = [txt]; ein["sup"] = Fraction(7, 8)
        elif place == "rootcom": root["coms"] = [txt, "z"]
        elif place == "ecom": ein["coms"] = [txt]
        return root
    places = ["tip", "inner", "root", "tipcom", "innercom", "rootcom", "ecom"]
    k = 0
    for cp in SPECIAL_CPS:
        for pos, txt in (("start", cp + "xy"), ("middle", "x" + cp + "y"), ("end", "xy" + cp), ("only", cp), ("twice", cp + "x" + cp + cp)):
            for place in places:
                k += 1
                if tier != "thorough" and pos in ("only", "twice") and k % 3:
                    continue
                t = tree(place, txt)
                out.append({"sx": sx({"op": Sym("roundtrip"), "tree": T(t)}),
                            "meta": {"op": "roundtrip", "kind": "special:" + place, "cp": "U+%04X" % ord(cp), "pos": pos}})
    return out

def gen(rng, tier):
    g = G(rng)
    nwf, nout, nval, nmal, nnum = {"quick": (600, 200, 100, 400, 150), "thorough": (40000, 10000, 5000, 35000, 10000), "search": (300, 100, 50, 250, 50)}[tier]
    hi = 40 if tier == "thorough" else 14
    out = []
    def rt(t, kind):
        out.append({"sx": sx({"op": Sym("roundtrip"), "tree": T(t)}),
                    "meta": {"op": "roundtrip", "kind": kind, "ntips": min(len(leaves(t)), 16), "rootdeg": min(len(t["slots"]), 7)}})
    def ps(s, kind):
        out.append({"sx": sx({"op": Sym("parse"), "text": s}), "meta": {"op": "parse", "kind": kind}})
    texts = []
    for _ in range(nwf):
        t = g.wf_tree(hi)
        texts.append(nw(t))
        rt(t, "wf")
    for _ in range(nout):
        t = g.wf_tree(hi)
        what = g.break_tree(t)
        texts.append(nw(t))
        rt(t, "out:" + what)
    if tier != "search":
        for s in HAND:
            ps(s, "hand")
        for d in (60, 150):
            t = caterpillar(d, rng)
            texts.append(nw(t))
            rt(t, "wf")
    # the big boundary texts are spread over the whole list (the runner works on consecutive chunks in parallel)
    if tier != "search":
        out += gen_special(tier)
    big = gen_boundary(tier)
    for _ in range(nnum):
        x = numtext(rng)
        ps(rng.choice(["(A:%s,B);", "((A,B)%s,C);", "((A,B)%s/0.5,C);", "((A,B)0.5/%s:1,C);", "(A:%s"]) % x, "numfuzz")
    for _ in range(nval):
        s = rng.choice(texts)
        ps(spaced(rng, s) if rng.random() < 0.8 else s, "spaced")
    for _ in range(nmal):
        s = rng.choice(texts)
        r = rng.random()
        if r < 0.2:
            ps(s[:rng.randrange(len(s) + 1)], "trunc")
        elif r < 0.4:
            s2 = rng.choice(texts)
            ps(s[:rng.randrange(len(s) + 1)] + s2[rng.randrange(len(s2) + 1):], "splice")
        elif r < 0.8:
            ps(mutate(rng, s), "mut")
        else:
            ps(mutate_bytes(rng, s), "bytes")
    step = max(1, len(out) // max(1, len(big)))
    res = []
    for i, c in enumerate(out):
        res.append(c)
        if i % step == 0 and big:
            res.append(big.pop())
    return res + big
