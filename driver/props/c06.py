"""C06: pruning yields exactly the induced subtree."""
from lib import *
import os, re, shutil
import cli

PROP = "C06"
PAR_OK = True          # harness/worker/c06.go keeps no package-level state
LEVEL = "proof"
RULE = ("random multifurcating trees (3..16 tips, 40 in thorough; rooted/unrooted; parent slot at random positions; lengths "
        "all/mixed/none, supports mixed/none, named inner nodes, comments) x a set of names to remove or (revert) to keep, "
        "chosen as: random subset, whole clade, all tips attached to the root, one or all tips of a cherry, a clade plus "
        "scattered tips, everything but 3 / 2 / 1 / 0 tips, names absent from the tree mixed in; every shape on 4 tips "
        "(5 in thorough) x every subset x both flags exhaustively.  Cases leaving fewer than 3 tips are outside the "
        "property's quantifier: for them only the correspondence with the model (result or error message) is judged.  "
        "non-trivial = the pruned tree differs from the input; distinct = distinct case text.  Negative lengths: in 30% of the random trees (50% in search mode) one to all present lengths are negated (never -1, the absent sentinel); the path-length clause is then also evaluated with every present length read as itself.  Chains: in a share of the cases (most of them in search mode) 1-3 single-child inner nodes are inserted directly above a pruned tip, preferably one whose parent is a bifurcation (inner node or root), sometimes also elsewhere; on such inputs the oracle demands the exact tip set, unchanged path lengths and that no single-child node is CREATED.  CLI stream (extra): `gotree prune` with names on the command line, -c, and -f tip files in every layout (one per line, comma separated, mixed, blank lines, no final newline, CRLF) and with long lines (4 KB+-2, 64 KB+-2, ~200 KB, padded with names absent from the tree; real names at the start, middle, end of the long line and on the lines after it), with and without -r; judged against the requested tip set and against the run with the names on the command line")
TRUSTED = ["tree built through NewNode/NewEdge + verif hooks (exact neighbour order); dump through Neigh()/Edges()/Left()/Right()",
           "worker classifies TipNode results by pointer membership in Tips()"]
ASSUMPTIONS = ["tip names are unique (Tree.ReinitIndexes refuses duplicates), so addressing tips by name in the model is exact"]
LEVEL_TEXT = "theorems in coq/Properties/C06.v about Model/Prune.v; correspondence by exact structural equality with the Go result"
LEVEL_NOTE = ("the name-index clause was false of the code as first read (RemoveTips never rebuilt tipIndex); fixed in /repo by "
              "'fix: RemoveTips left the tip name index stale'; the model follows the fixed code")

def inner_nodes(t):
    return [x for x in preorder(t) if kids(x)]

def pick_names(rng, t):
    """-> (list of tip names to REMOVE, label)"""
    ls = leaves(t)
    n = len(ls)
    r = rng.random()
    inn = [x for x in inner_nodes(t) if x is not t]
    if r < 0.25:
        k = rng.randint(1, max(1, n - 3))
        return rng.sample(ls, k), "random"
    if r < 0.40 and inn:
        x = rng.choice(inn)
        return leaves(x), "clade"
    if r < 0.50:
        roottips = [c["name"] for _, c in kids(t) if not kids(c)]
        if roottips:
            k = rng.randint(1, len(roottips))
            return rng.sample(roottips, k), "roottips"
    if r < 0.65:
        cherries = [x for x in inner_nodes(t) if all(not kids(c) for _, c in kids(x))]
        if cherries:
            x = rng.choice(cherries)
            cl = leaves(x)
            if rng.random() < 0.5:
                return cl, "cherry-all"
            return cl[:max(1, len(cl) - 1)], "cherry-but-one"
    if r < 0.75 and inn:
        x = rng.choice(inn)
        cl = leaves(x)
        others = [a for a in ls if a not in cl]
        extra = rng.sample(others, rng.randint(0, min(3, len(others))))
        return cl + extra, "clade+scattered"
    if r < 0.85:
        keep = rng.choice([3, 3, 3, 2, 2, 1, 0])
        keep = min(keep, n)
        kept = rng.sample(ls, keep)
        return [a for a in ls if a not in kept], "all-but-%d" % keep
    if r < 0.90:
        return [], "none"
    k = rng.randint(1, n)
    return rng.sample(ls, k), "random-any"


def _blank_edge(rng, g, lenmode):
    return {"len": g.length(lenmode), "sup": None, "pv": None, "coms": []}

def add_chain(rng, g, t, tipname, k, lenmode):
    """insert k single-child inner nodes directly above the tip named tipname"""
    for x in preorder(t):
        for i, s in enumerate(x["slots"]):
            if s is not None and not kids(s[1]) and s[1]["name"] == tipname:
                e, c = s
                for j in range(k):
                    nd = {"name": rng.choice(["", "", "S%d" % rng.randrange(1000)]), "coms": [], "slots": [None, (e, c)]}
                    if rng.random() < 0.5:
                        nd["slots"].reverse()
                    e, c = _blank_edge(rng, g, lenmode), nd
                x["slots"][i] = (e, c)
                return True
    return False

def chain_targets(t, remove):
    """removed tips, those whose parent has exactly two children first (the parent becomes a
    single-child node, or the root a one-neighbour root, once the chain is gone)"""
    good, other = [], []
    for x in preorder(t):
        ks = kids(x)
        for _, c in ks:
            if not kids(c) and c["name"] in remove:
                (good if len(ks) == 2 else other).append(c["name"])
    return good, other

def add_chains(rng, g, t, remove, lenmode):
    good, other = chain_targets(t, set(remove))
    targets = []
    if good:
        targets.append(rng.choice(good))
    if other and (not targets or rng.random() < 0.4):
        targets.append(rng.choice(other))
    for nm in targets:
        add_chain(rng, g, t, nm, rng.choice([1, 1, 2, 3]), lenmode)
    if rng.random() < 0.3:       # a single-child node above a tip that stays
        stay = [a for a in leaves(t) if a not in remove]
        if stay:
            add_chain(rng, g, t, rng.choice(stay), 1, lenmode)
    return bool(targets)

def mk_case(rng, t, remove, label, revert, absent):
    ls = leaves(t)
    if revert:
        names = [a for a in ls if a not in remove]
    else:
        names = list(remove)
    if absent:
        names = names + ["zz%d" % i for i in range(rng.randint(1, 3))]
    rng.shuffle(names)
    left = len(ls) - len(set(remove))
    return {"sx": sx({"tree": T(t), "names": names, "revert": revert}),
            "meta": {"how": label, "revert": revert, "ntips": len(ls), "left>=3": left >= 3,
                     "rooted": len(t["slots"]) == 2, "absent": absent}}


def pre_history_case(rng, g, tier):
    """the tree has been indexed and then edited through the public API without reindexing (graft a
    tip, rename a tip with SetName, an earlier RemoveTips, Clone); the names to remove are the
    new / renamed tips only, old names only, or both.  The judge takes the tree dumped just before
    the call as the input."""
    t = g.tree(lo=6, hi=14, maxdeg=4, lenmode=rng.choice(["all", "all", "mixed"]), supmode="mixed",
               up_random=rng.random() < 0.5)
    tips = leaves(t)
    pre, new, gone = [], [], []
    noindex = rng.random() < 0.15
    for j in range(rng.randint(1, 3)):
        r = rng.random()
        if r < 0.35:
            nm = "g%d" % j
            pre.append([Sym("graft"), nm, rng.randrange(0, 40)]); tips.append(nm); new.append(nm)
        elif r < 0.6:
            old = rng.choice(tips); nm = "r%d" % j
            pre.append([Sym("rename"), old, nm]); tips[tips.index(old)] = nm; new.append(nm); gone.append(old)
        elif r < 0.75 and len(tips) > 6:
            k = rng.randint(1, len(tips) - 5)
            rm = rng.sample(tips, k)
            pre.append([Sym("prune"), False, rm]); tips = [a for a in tips if a not in rm]
            new = [a for a in new if a not in rm]; gone += rm
        elif r < 0.87:
            pre.append([Sym("clone")])
        else:
            pre.append([Sym("index")])
    old_tips = [a for a in tips if a not in new]
    mode = rng.choice(["new-only", "new-only", "old-only", "both", "gone-names", "noop-absent", "noop-keepall"])
    if mode.startswith("noop"):
        # a prune that removes nothing, on a tree whose name table is not current (a rename without
        # reindexing, or never indexed): the look-ups afterwards must reflect the tips as they are
        if not any(op[0].s == "rename" for op in pre) and not noindex:
            old = rng.choice(tips); nm = "r9"
            pre.append([Sym("rename"), old, nm]); tips[tips.index(old)] = nm; new.append(nm); gone.append(old)
        if mode == "noop-absent":
            names, revert = ["zzq%d" % i for i in range(rng.randint(0, 3))] + gone[:1], False
        else:
            names, revert = list(tips) + ["zzq0"], True
        rng.shuffle(names)
        case = {"tree": T(t), "names": names, "revert": revert, "pre": pre}
        if noindex:
            case["noindex"] = True
        return {"sx": sx(case), "meta": {"how": "pre:" + mode, "revert": revert, "ntips": len(tips), "left>=3": True,
                                         "rooted": len(t["slots"]) == 2, "absent": True}}
    if mode == "new-only" and new:
        remove = rng.sample(new, rng.randint(1, len(new)))
    elif mode == "old-only" or not new:
        remove = rng.sample(old_tips, rng.randint(1, max(1, len(old_tips) - 3)))
    elif mode == "gone-names" and gone:
        remove = rng.sample(gone, min(len(gone), 2))          # names that are not tips any more
    else:
        remove = rng.sample(new, rng.randint(1, len(new))) + rng.sample(old_tips, rng.randint(1, max(1, len(old_tips) - 3)))
    revert = rng.random() < 0.3
    names = [a for a in tips if a not in remove] if revert else list(remove)
    rng.shuffle(names)
    case = {"tree": T(t), "names": names, "revert": revert, "pre": pre}
    if noindex:
        case["noindex"] = True
    left = len([a for a in tips if a not in remove])
    return {"sx": sx(case), "meta": {"how": "pre:" + mode, "revert": revert, "ntips": len(tips), "left>=3": left >= 3,
                                     "rooted": len(t["slots"]) == 2, "absent": mode == "gone-names"}}

# Known finding C06-negative-length-clamped-on-merge (open, not repaired): removeTip merges two branches as
# max(0,l1)+max(0,l2), so a negative length is read as 0.  Narrow matcher: the verdict is ORACLE with exactly the raw
# path-length message, which Judge/C06.v evaluates LAST (after tip set, splits, single nodes, clamped distances,
# look-ups and the correspondence with the bug-compatible model all passed), and the input tree of the case has a
# negative length other than the absent sentinel -1 (for a case with a pre-history: the tree dumped before the call).
_NEG_MSG = "a path length between two remaining tips changed (a negative branch length was replaced by 0)"
_NEG_LEN = re.compile(r"\(D (-\d+(?:/\d+)?) ")

def _neg_clamped(case):
    if case.get("kind") != "ORACLE":
        return False
    f = case.get("fields") or []
    if len(f) != 1 or f[0] != _NEG_MSG:
        return False
    # the input of RemoveTips: the tree dumped just before the call when the case has a pre-history (GraftTipOnEdge
    # halves the length of the grafted branch without looking at the sentinel: a branch without length becomes two
    # branches of length -1/2), otherwise the tree of the case
    obs = case.get("obs") or ""
    i = obs.find("(pretree ") if isinstance(obs, str) else -1
    text = obs[i:] if i >= 0 else (case.get("sx") or "")
    return any(v != "-1" for v in _NEG_LEN.findall(text))

MATCHERS = {"C06-negative-length-clamped-on-merge": _neg_clamped}

def negate_lengths(rng, t, prob=0.3):
    """negative branch lengths (legal Newick, NJ trees have them): some present lengths become
    their opposite, on inner and tip branches; -1 is avoided (it is the 'absent' sentinel)"""
    if rng.random() >= prob:
        return False
    es = [e for x in preorder(t) for e, _ in kids(x) if e["len"] is not None and e["len"] > 0 and e["len"] != 1]
    if not es:
        return False
    for e in rng.sample(es, min(len(es), rng.choice([1, 1, 2, 3, len(es)]))):
        e["len"] = -e["len"]
    return True

def gen(rng, tier):
    g = Gen(rng)
    out = []
    n = {"quick": 700, "thorough": 12000, "search": 1500}[tier]
    for _ in range(n):
        t = g.tree(lo=3, hi=16 if tier != "thorough" else 40, maxdeg=5,
                   lenmode=rng.choice(["all", "all", "mixed", "none"]),
                   supmode=rng.choice(["mixed", "mixed", "none", "all"]),
                   inner_names=rng.random() < 0.3, comments=rng.random() < 0.2,
                   up_random=rng.random() < 0.5)
        remove, label = pick_names(rng, t)
        if rng.random() < (0.7 if tier == "search" else 0.15):
            lm = "all" if all(e["len"] is not None for x in preorder(t) for e, _ in kids(x)) else "mixed"
            if add_chains(rng, g, t, remove, lm):
                label += "+chain"
        if negate_lengths(rng, t, 0.5 if tier == "search" else 0.3):
            label += "+neg"
        out.append(mk_case(rng, t, remove, label, rng.random() < 0.4, rng.random() < 0.25))
    for _ in range({"quick": 250, "thorough": 3000, "search": 700}[tier]):
        out.append(pre_history_case(rng, g, tier))
    # exhaustive: every shape x every subset x both flags
    if tier != "search":
        k = 4 if tier == "quick" else 5
        names = ["t%d" % i for i in range(k)]
        shapes = all_shapes(names)
        for sh in shapes:
            t = g.decorate(sh, lenmode="all", supmode="mixed", up_random=True)
            for mask in range(1 << k):
                remove = [names[i] for i in range(k) if mask >> i & 1]
                for revert in (False, True):
                    out.append(mk_case(rng, t, remove, "exhaustive", revert, False))
    return out


# ---------------------------------------------------------------- CLI stream: gotree prune
def _tips_of_newick(s):
    return [m for m in re.findall(r"[(,]([^(),:;\[\]]+)", s)]

def _pad_names(nbytes, start):
    """comma separated names that are not in any generated tree, total length exactly nbytes (>= 12)"""
    out, k, ln = [], start, 0
    while True:
        nm = "zz%07d" % k
        add = len(nm) + (1 if out else 0)
        if ln + add > nbytes - 0:
            break
        out.append(nm); ln += add; k += 1
    # stretch the last name to reach the exact length
    if out and ln < nbytes:
        out[-1] = out[-1] + "q" * (nbytes - ln)
    return out

def _layouts(rng, names):
    """tip-file layouts for a list of names -> [(label, bytes)]"""
    res = []
    res.append(("one-per-line", "\n".join(names) + "\n"))
    res.append(("no-final-newline", "\n".join(names)))
    res.append(("crlf", "\r\n".join(names) + "\r\n"))
    res.append(("comma-one-line", ",".join(names) + "\n"))
    res.append(("comma-no-newline", ",".join(names)))
    # mixed: random grouping, blank lines in between
    lines, i = [], 0
    while i < len(names):
        k = rng.randint(1, 3)
        lines.append(",".join(names[i:i + k])); i += k
        if rng.random() < 0.3:
            lines.append("")
    res.append(("mixed-blank-lines", "\n".join(lines) + "\n"))
    return [(l, b.encode()) for l, b in res]

def _long_layouts(rng, names, target):
    """one long line of about `target` bytes: real names at the start, middle and end of the long line
    and on the lines after it; padding = absent names"""
    names = list(names)
    rng.shuffle(names)
    q = max(1, len(names) // 4)
    first, mid, last, after = names[:q], names[q:2 * q], names[2 * q:3 * q], names[3 * q:]
    fixed = ",".join(first + mid + last)
    room = target - len(fixed) - 2
    if room < 40:
        return None
    padA = _pad_names(room // 2, 1000)
    padB = _pad_names(room - room // 2, 500000)
    line = ",".join(first + padA + mid + padB + last)
    body = line + "\n" + "\n".join(after) + ("\n" if after else "")
    return line, body.encode()

def extra(tier, seed, st):
    """`gotree prune` on small trees: names on the command line, -c, and -f tip files in every layout and
    with long lines; -r as well.  Oracle: the tips of the output are exactly the requested ones, and the
    output equals the one obtained with the names on the command line."""
    rng = random.Random(seed + 606)
    fails = []
    info = {"evaluations": 0, "distinct_nontrivial": 0, "cli_layouts": {}}
    ok, err = cli.build_gotree()
    if not ok:
        return [("build", "gotree no longer builds: " + err[-500:], None)], info
    d = cli.scratch("c06x-")
    g = Gen(rng)
    def prune(argv):
        rc, so, se = cli.run(["prune", "-i", "tree.nw"] + argv, d)
        return rc, so.decode("utf-8", "replace"), se.decode("utf-8", "replace")
    def judge(label, argv, want, ref, body):
        rc, so, se = prune(argv)
        info["evaluations"] += 1
        info["cli_layouts"][label] = info["cli_layouts"].get(label, 0) + 1
        got = sorted(_tips_of_newick(so))
        if rc != 0 or "panic" in se:
            fails.append((label, "`gotree prune %s` failed (rc=%d): %s" % (" ".join(argv), rc, se[:200]), body)); return
        if got != sorted(want):
            missing = sorted(set(got) - set(want))[:5]
            fails.append((label, "`gotree prune %s` (%s): the tips of the output are not the requested ones: %d tips instead of %d; "
                          "not removed: %s" % (" ".join(argv), label, len(got), len(want), missing), body)); return
        if ref is not None and so.strip() != ref.strip():
            fails.append((label, "`gotree prune %s` (%s): output differs from the run with the names on the command line" %
                          (" ".join(argv), label), body)); return
        info["distinct_nontrivial"] += 1
    try:
        ntrees = 6 if tier == "quick" else 25
        long_targets = [4094, 4095, 4096, 4097, 4098, 65534, 65535, 65536, 65537, 65538, 200000]
        for ti in range(ntrees):
            t = g.tree(lo=8, hi=20, maxdeg=4, lenmode="all", supmode="mixed")
            ls = leaves(t)
            open(os.path.join(d, "tree.nw"), "w").write(newick(t) + "\n")
            k = rng.randint(2, len(ls) - 4)
            remove = rng.sample(ls, k)
            keep = [a for a in ls if a not in remove]
            body0 = {"tree": newick(t), "remove": remove}
            # reference runs: names on the command line
            rc, ref_rm, se = prune(remove)
            rc2, ref_keep, se2 = prune(["-r"] + keep)
            judge("args", remove, keep, None, dict(body0, mode="args"))
            judge("args -r", ["-r"] + keep, keep, None, dict(body0, mode="args -r"))
            if ref_rm.strip() != ref_keep.strip():
                fails.append(("args vs -r", "removing a set and keeping its complement give different trees", body0))
            # -c: a star tree on the kept tips
            open(os.path.join(d, "comp.nw"), "w").write("(" + ",".join(keep) + ");\n")
            judge("-c", ["-c", "comp.nw"], keep, ref_rm, dict(body0, mode="-c"))
            # tip files, every layout, absent names mixed in
            absent = ["zzabsent%d" % i for i in range(3)]
            for label, data in _layouts(rng, remove + absent):
                open(os.path.join(d, "tips.txt"), "wb").write(data)
                judge("-f " + label, ["-f", "tips.txt"], keep, ref_rm, dict(body0, mode="-f " + label, tipfile=data.decode()[:300]))
            for label, data in _layouts(rng, keep + absent):
                open(os.path.join(d, "tips.txt"), "wb").write(data)
                judge("-r -f " + label, ["-r", "-f", "tips.txt"], keep, ref_rm, dict(body0, mode="-r -f " + label, tipfile=data.decode()[:300]))
            # long lines
            targets = long_targets if (tier != "quick" or ti < 2) else rng.sample(long_targets, 3)
            for target in targets:
                for revert in (False, True):
                    names = keep if revert else remove
                    r = _long_layouts(rng, names, target)
                    if r is None:
                        continue
                    line, data = r
                    open(os.path.join(d, "tips.txt"), "wb").write(data)
                    label = ("-r " if revert else "") + "-f long line %d bytes" % len(line)
                    judge(label, (["-r"] if revert else []) + ["-f", "tips.txt"], keep, ref_rm,
                          dict(body0, mode=label, line_bytes=len(line), names_after_line=len(data.decode().split("\n")) - 2))
        # ---- multi-tree input files: every output tree is judged against ITS input tree
        def single(tr, argv):
            open(os.path.join(d, "one.nw"), "w").write(newick(tr) + "\n")
            rc, so, se = cli.run(["prune", "-i", "one.nw"] + argv, d)
            return rc, so.decode("utf-8", "replace")
        nmulti = 8 if tier == "quick" else 40
        for mi in range(nmulti):
            ntrees = rng.randint(2, 4)
            base = ["t%d" % i for i in range(rng.randint(8, 14))]
            same = rng.random() < 0.3
            trees, tipsets = [], []
            for j in range(ntrees):
                names = list(base)
                if not same:
                    # drop a few base tips and add tips that only this tree has
                    for a in rng.sample(base[4:], rng.randint(0, 2)):
                        names.remove(a)
                    names += ["u%d_%d" % (j, i) for i in range(rng.randint(0, 3) if j > 0 else 0)]
                sh = g.shape(names, maxdeg=4, rootdeg=rng.choice([2, 3, 3]))
                tr = g.decorate(sh, lenmode="all", supmode="mixed")
                trees.append(tr); tipsets.append(leaves(tr))
            open(os.path.join(d, "tree.nw"), "w").write("".join(newick(tr) + "\n" for tr in trees))
            # the first four base tips stay in every tree, so at least 3 tips always remain
            removable = base[4:] + [a for ts in tipsets for a in ts if a.startswith("u")]
            remove = rng.sample(removable, rng.randint(1, max(1, len(removable) - 1)))
            keepnames = sorted(set(a for ts in tipsets for a in ts) - set(remove))
            comp_tips = keepnames + ["onlycomp1", "onlycomp2"]
            open(os.path.join(d, "comp.nw"), "w").write("(" + ",".join(comp_tips) + ");\n")
            open(os.path.join(d, "tips.txt"), "w").write(",".join(remove[:len(remove) // 2]) + "\n" + "\n".join(remove[len(remove) // 2:]) + "\n")
            open(os.path.join(d, "keep.txt"), "w").write("\n".join(keepnames) + "\n")
            modes = [("multi args", remove, False), ("multi args -r", ["-r"] + keepnames, True),
                     ("multi -f", ["-f", "tips.txt"], False), ("multi -r -f", ["-r", "-f", "keep.txt"], True),
                     ("multi -c", ["-c", "comp.nw"], False)]
            for label, argv, rev in modes:
                rc, so, se = prune(argv)
                info["evaluations"] += 1
                info["cli_layouts"][label] = info["cli_layouts"].get(label, 0) + 1
                body = {"trees": [newick(tr) for tr in trees], "argv": argv, "remove": remove, "mode": label, "stdout": so[:600]}
                lines = [l for l in so.split("\n") if l.strip()]
                if rc != 0 or "panic" in se or len(lines) != ntrees:
                    fails.append((label, "`gotree prune %s` on %d trees: rc=%d, %d output trees: %s" %
                                  (" ".join(argv[:6]), ntrees, rc, len(lines), se[:200]), body)); continue
                bad = False
                for j, (tr, ts, line) in enumerate(zip(trees, tipsets, lines)):
                    want = sorted(a for a in ts if a not in remove)
                    got = sorted(_tips_of_newick(line))
                    if got != want:
                        fails.append((label, "`gotree prune %s` (%s): output tree %d of %d does not have the requested tips of ITS input "
                                      "tree: %d tips instead of %d; not removed: %s; wrongly removed: %s" %
                                      (" ".join(argv[:6]), label, j + 1, ntrees, len(got), len(want),
                                       sorted(set(got) - set(want))[:5], sorted(set(want) - set(got))[:5]), body))
                        bad = True; break
                    # same tree as the one-tree run with this tree's own removal list on the command line
                    rc1, so1 = single(tr, [a for a in ts if a in remove] or ["none_to_remove"])
                    if rc1 != 0 or so1.strip() != line.strip():
                        fails.append((label, "`gotree prune %s` (%s): output tree %d differs from pruning that tree alone" %
                                      (" ".join(argv[:6]), label, j + 1), body))
                        bad = True; break
                if not bad:
                    info["distinct_nontrivial"] += 1
    finally:
        shutil.rmtree(d, ignore_errors=True)
    return fails, info
