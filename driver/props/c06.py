"""C06: pruning yields exactly the induced subtree."""
from lib import *

PROP = "C06"
LEVEL = "proof"
RULE = ("random multifurcating trees (3..16 tips, 40 in thorough; rooted/unrooted; parent slot at random positions; lengths "
        "all/mixed/none, supports mixed/none, named inner nodes, comments) x a set of names to remove or (revert) to keep, "
        "chosen as: random subset, whole clade, all tips attached to the root, one or all tips of a cherry, a clade plus "
        "scattered tips, everything but 3 / 2 / 1 / 0 tips, names absent from the tree mixed in; every shape on 4 tips "
        "(5 in thorough) x every subset x both flags exhaustively.  Cases leaving fewer than 3 tips are outside the "
        "property's quantifier: for them only the correspondence with the model (result or error message) is judged.  "
        "non-trivial = the pruned tree differs from the input; distinct = distinct case text")
TRUSTED = ["tree built through NewNode/NewEdge + verif hooks (exact neighbour order); dump through Neigh()/Edges()/Left()/Right()",
           "worker classifies TipNode results by pointer membership in Tips()"]
ASSUMPTIONS = ["tip names are unique (Tree.ReinitIndexes refuses duplicates), so addressing tips by name in the model is exact"]
LEVEL_TEXT = "theorems in coq/Properties/C06.v about Model/Prune.v; correspondence by exact structural equality with the Go result"
LEVEL_NOTE = ("the name-index clause was false of the code as first read (RemoveTips never rebuilt tipIndex); fixed in /repo by "
              "'fix: RemoveTips left the tip name index stale'; the model follows the fixed code")

def inner_nodes(t):
    return [x for x in preorder(t) if kids(x)]

def pick_names(rng, t):
    """-> (list of tip names to REMOVE, label)"""
    ls = leaves(t)
    n = len(ls)
    r = rng.random()
    inn = [x for x in inner_nodes(t) if x is not t]
    if r < 0.25:
        k = rng.randint(1, max(1, n - 3))
        return rng.sample(ls, k), "random"
    if r < 0.40 and inn:
        x = rng.choice(inn)
        return leaves(x), "clade"
    if r < 0.50:
        roottips = [c["name"] for _, c in kids(t) if not kids(c)]
        if roottips:
            k = rng.randint(1, len(roottips))
            return rng.sample(roottips, k), "roottips"
    if r < 0.65:
        cherries = [x for x in inner_nodes(t) if all(not kids(c) for _, c in kids(x))]
        if cherries:
            x = rng.choice(cherries)
            cl = leaves(x)
            if rng.random() < 0.5:
                return cl, "cherry-all"
            return cl[:max(1, len(cl) - 1)], "cherry-but-one"
    if r < 0.75 and inn:
        x = rng.choice(inn)
        cl = leaves(x)
        others = [a for a in ls if a not in cl]
        extra = rng.sample(others, rng.randint(0, min(3, len(others))))
        return cl + extra, "clade+scattered"
    if r < 0.85:
        keep = rng.choice([3, 3, 3, 2, 2, 1, 0])
        keep = min(keep, n)
        kept = rng.sample(ls, keep)
        return [a for a in ls if a not in kept], "all-but-%d" % keep
    if r < 0.90:
        return [], "none"
    k = rng.randint(1, n)
    return rng.sample(ls, k), "random-any"

def mk_case(rng, t, remove, label, revert, absent):
    ls = leaves(t)
    if revert:
        names = [a for a in ls if a not in remove]
    else:
        names = list(remove)
    if absent:
        names = names + ["zz%d" % i for i in range(rng.randint(1, 3))]
    rng.shuffle(names)
    left = len(ls) - len(set(remove))
    return {"sx": sx({"tree": T(t), "names": names, "revert": revert}),
            "meta": {"how": label, "revert": revert, "ntips": len(ls), "left>=3": left >= 3,
                     "rooted": len(t["slots"]) == 2, "absent": absent}}

def gen(rng, tier):
    g = Gen(rng)
    out = []
    n = {"quick": 700, "thorough": 12000, "search": 1500}[tier]
    for _ in range(n):
        t = g.tree(lo=3, hi=16 if tier != "thorough" else 40, maxdeg=5,
                   lenmode=rng.choice(["all", "all", "mixed", "none"]),
                   supmode=rng.choice(["mixed", "mixed", "none", "all"]),
                   inner_names=rng.random() < 0.3, comments=rng.random() < 0.2,
                   up_random=rng.random() < 0.5)
        remove, label = pick_names(rng, t)
        out.append(mk_case(rng, t, remove, label, rng.random() < 0.4, rng.random() < 0.25))
    # exhaustive: every shape x every subset x both flags
    if tier != "search":
        k = 4 if tier == "quick" else 5
        names = ["t%d" % i for i in range(k)]
        shapes = all_shapes(names)
        for sh in shapes:
            t = g.decorate(sh, lenmode="all", supmode="mixed", up_random=True)
            for mask in range(1 << k):
                remove = [names[i] for i in range(k) if mask >> i & 1]
                for revert in (False, True):
                    out.append(mk_case(rng, t, remove, "exhaustive", revert, False))
    return out
