#!/usr/bin/env python3
"""Regenerates MANIFEST.json from driver/props/*.py (claimed) and properties.jsonl (the rest are not_applicable
until their check exists)."""
import json, os, sys, importlib
sys.path.insert(0, os.path.join(os.path.dirname(os.path.abspath(__file__))))
import levels
VERIF = os.path.dirname(os.path.dirname(os.path.abspath(__file__)))
sys.path.insert(0, os.path.join(VERIF, "driver"))
props = [json.loads(l) for l in open(os.path.join(VERIF, "properties.jsonl"))]
CLAIMED = [l.strip() for l in open(os.path.join(VERIF, "driver", "claimed.txt")) if l.strip() and not l.startswith("#")]
checks, na = [], []
for p in props:
    pid = p["id"]
    mp = os.path.join(VERIF, "driver", "props", pid.lower() + ".py")
    if os.path.exists(mp) and pid in CLAIMED:
        mod = importlib.import_module("props." + pid.lower())
        checks.append({
            "property_id": pid,
            "quick_cmd": "./check %s --tier quick" % pid,
            "thorough_cmd": "./check %s --tier thorough" % pid,
            "evidence_file": "/verif/evidence/%s.json" % pid,
            "replay_cmd_template": "./check %s --replay {path}" % pid,
            "engine": "coq-proof+correspondence",
            "level_claimed": {"category": "proof", "text": levels.TEXT.get(pid) or (getattr(mod, "LEVEL_TEXT", "") if len(getattr(mod, "LEVEL_TEXT", "")) > 20 else ""), "design_ref": "DESIGN.md section 5, " + pid},
            "level_note": levels.COMMON_NOTE + (levels.NOTE.get(pid) or getattr(mod, "LEVEL_NOTE", "")),
            "technique": getattr(mod, "TECHNIQUE", "machine-checked proof in Coq 8.16 over a Gallina model + correspondence of the extracted model with the Go code"),
        })
    else:
        na.append({"property_id": pid, "reason": "check not built yet in this round (planned: Coq model + correspondence, see DESIGN.md section 5)"})
m = {
    "version": 1,
    "setup_cmd": "./check --setup",
    "hooks": {"guard": "verif", "enable": "go build -tags verif (harness/worker imports /repo through a replace directive)",
              "baseline_off_cmd": "cd /repo && go test -vet=off -count=1 ./...",
              "source_commits": [l.strip() for l in open(os.path.join(VERIF, "MANIFEST.hooks")) if l.strip() and not l.startswith("#")],
              "add_only": True},
    "engines": [{"name": "coq-proof+correspondence", "path": "/verif/check",
                 "serves_properties": [c["property_id"] for c in checks],
                 "kind_free_text": "Coq 8.16.1 development (coq/), judges extracted to OCaml, Go worker built from /repo with -tags verif, Python driver"}],
    "checks": checks,
    "notes": "VERIF_SEED seeds the single PRNG of the driver; VERIF_TIER=quick|thorough. known_findings.json lists genuine defects (open: reported as KNOWN-FINDING; fixed: suppress nothing).",
    "not_applicable": na,
}
json.dump(m, open(os.path.join(VERIF, "MANIFEST.json"), "w"), indent=1)
print("MANIFEST: %d checks, %d not yet claimed" % (len(checks), len(na)))
