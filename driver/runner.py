"""Runs one property check: proof obligations, correspondence, oracle, verdict, evidence."""
import os, sys, json, time, re, random, hashlib, subprocess
from concurrent.futures import ThreadPoolExecutor
import lib, build

VERIF = lib.VERIF
ALLOWED_AXIOMS = {
    # axioms declared by the standard library that some proofs may rely on (named in DESIGN section 6)
    "functional_extensionality_dep", "FunctionalExtensionality.functional_extensionality_dep",
    "Eqdep.Eq_rect_eq.eq_rect_eq", "eq_rect_eq", "JMeq_eq", "JMeq.JMeq_eq",
    "proof_irrelevance", "ProofIrrelevance.proof_irrelevance", "classic", "Classical_Prop.classic",
}

def theorems_of(vpath):
    if not os.path.exists(vpath):
        return []
    src = open(vpath).read()
    src = re.sub(r"\(\*.*?\*\)", "", src, flags=re.S)
    return re.findall(r"^\s*(?:Theorem|Lemma|Example|Corollary)\s+([A-Za-z0-9_']+)", src, flags=re.M)

GATE = re.compile(r"\b(Admitted|admit|Axiom|Axioms|Parameter|Parameters|Conjecture|Conjectures)\b|Unset\s+Guard|bypass_check|type-in-type|impredicative-set|Admit\s+Obligations")

def grep_gate():
    """no Admitted / Axiom / ... anywhere in the development (comments excluded)"""
    bad = []
    for vf in build.vfiles():
        if vf.startswith("Gen/"):
            pass
        src = open(os.path.join(build.COQ, vf)).read()
        src = re.sub(r"\(\*.*?\*\)", "", src, flags=re.S)
        # string literals cannot declare anything (and the generated tables quote Go identifiers)
        src = re.sub(r'"(?:[^"]|"")*"', '""', src)
        for m in GATE.finditer(src):
            bad.append("%s: %s" % (vf, m.group(0)))
    # Variable / Hypothesis outside a section
    for vf in build.vfiles():
        src = open(os.path.join(build.COQ, vf)).read()
        src = re.sub(r"\(\*.*?\*\)", "", src, flags=re.S)
        depth = 0
        for line in src.split("\n"):
            s = line.strip()
            if re.match(r"Section\s+\w+", s): depth += 1
            elif re.match(r"End\s+\w+", s) and depth > 0: depth -= 1
            elif depth == 0 and re.match(r"(Variable|Variables|Hypothesis|Hypotheses|Context)\b", s):
                bad.append("%s: %s outside a section" % (vf, s[:40]))
    return bad

def property_files(prop):
    """Properties/<prop>.v plus companion files Properties/<prop><Suffix>.v"""
    d = os.path.join(build.COQ, "Properties")
    fs = []
    if os.path.isdir(d):
        for f in sorted(os.listdir(d)):
            if re.match(r"^%s([A-Za-z_][A-Za-z0-9_]*)?\.v$" % prop, f):
                fs.append("Properties/" + f)
    return fs

def check_obligations(prop, st, tier="quick"):
    """compile the property files on their own, parse Print Assumptions output"""
    files = property_files(prop)
    res = {"file": ", ".join(files), "theorems": [], "obligations": 0, "discharged": 0, "assumptions": [], "broken": [],
           "checker_cmd": "cd /verif/coq && make -k -j16 (coq_makefile, full .vo build) ; coqc -Q . GT %s (Print Assumptions under every theorem)" % " ".join(files)}
    if "Properties/%s.v" % prop not in files:
        res["broken"].append("no Properties file")
        return res
    used = set()
    outdir = os.path.join(build.BUILD, "props")
    os.makedirs(outdir, exist_ok=True)
    deps_failed = [f for f in st.get("coq_failed", [])]
    for vf in files:
        thms = theorems_of(os.path.join(build.COQ, vf))
        res["theorems"] += thms
        res["obligations"] += len(thms)
        if not thms:
            res["broken"].append("%s states no theorem" % vf)
            continue
        if vf in deps_failed or not build.built(vf):
            res["broken"].append("%s does not compile (failed files: %s)" % (vf, ", ".join(deps_failed)))
            res["log"] = st.get("coq_log", "")[-4000:]
            continue
        rc, out = build.sh(["coqc", "-Q", ".", "GT", "-w", "-all", "-o", os.path.join(outdir, os.path.basename(vf) + "o"), vf], cwd=build.COQ, timeout=900)
        if rc != 0:
            res["broken"].append("coqc %s failed" % vf)
            res["log"] = out[-4000:]
            continue
        blocks = re.split(r"(?=Closed under the global context|Axioms:)", out)
        blocks = [b for b in blocks if b.startswith("Closed") or b.startswith("Axioms:")]
        bad_ax = []
        for b in blocks:
            if b.startswith("Axioms:"):
                for m in re.finditer(r"^([A-Za-z_][\w.']*)\s*:", b, flags=re.M):
                    name = m.group(1)
                    if name == "Axioms":
                        continue
                    used.add(name)
                    if name not in ALLOWED_AXIOMS and name.split(".")[-1] not in ALLOWED_AXIOMS:
                        bad_ax.append(name)
        if len(blocks) < len(thms):
            res["broken"].append("%s: only %d Print Assumptions for %d theorems" % (vf, len(blocks), len(thms)))
        if bad_ax:
            res["broken"].append("%s: unexpected axioms: %s" % (vf, ", ".join(sorted(set(bad_ax)))))
        if not any(x.startswith(vf) or x.startswith("coqc " + vf) for x in res["broken"]):
            res["discharged"] += len(thms)
    res["assumptions"] = sorted(used)
    if tier == "thorough" and not res["broken"]:
        # independent re-check of the compiled property files and everything they depend on
        mods = ["GT." + f[:-2].replace("/", ".") for f in files]
        rc, out = build.sh(["coqchk", "-silent", "-o", "-Q", ".", "GT"] + mods, cwd=build.COQ, timeout=3400)
        if rc != 0:
            # compiled files may have been rewritten by a concurrent build while they were being read:
            # bring the build up to date and re-check once, this time holding the build lock
            import fcntl
            lock = open(os.path.join(build.BUILD, ".lock"), "w")
            fcntl.flock(lock, fcntl.LOCK_EX)
            try:
                build.sh(["bash", "-c", "ulimit -v 16000000; exec timeout 3000 make -k -j16 COQC='timeout 900 coqc'"], cwd=build.COQ, timeout=3100)
                rc, out = build.sh(["coqchk", "-silent", "-o", "-Q", ".", "GT"] + mods, cwd=build.COQ, timeout=3400)
            finally:
                fcntl.flock(lock, fcntl.LOCK_UN)
        m = re.search(r"\* Axioms:(.*?)\n\s*\n\* Constants", out, flags=re.S)
        res["coqchk"] = {"rc": rc, "axioms": (m.group(1).strip() if m else "?"), "tail": out[-600:]}
        res["checker_cmd"] += " ; coqchk -silent -o -Q . GT " + " ".join(mods)
        if rc != 0:
            res["broken"].append("coqchk failed: " + out[-300:])
            res["discharged"] = 0
    gate = grep_gate()
    if gate:
        res["broken"].append("grep gate: " + "; ".join(gate[:5]))
        res["discharged"] = 0
    return res

def run_cases(prop, cases, nproc=16, chunk=200, timeout=900):
    """cases: list of dicts with key 'sx'.  Fills 'kind', 'fields', 'obs'."""
    chunks = [cases[i:i + chunk] for i in range(0, len(cases), chunk)]
    def work(ch):
        pending = list(ch)
        while pending:
            res, err = lib.run_pipeline(prop, [c["sx"] for c in pending], timeout=timeout)
            died_at = None
            for i, (c, r) in enumerate(zip(pending, res)):
                c["kind"], c["fields"], c["obs"] = r
                if died_at is None and "worker died" in c["obs"]:
                    died_at = i
            if died_at is None:
                break
            # the worker died on case died_at; later cases were never run: run them again
            pending[died_at]["kind"] = "DIED"
            pending[died_at]["fields"] = [err[-500:]]
            pending = pending[died_at + 1:]
    with ThreadPoolExecutor(max_workers=nproc) as ex:
        list(ex.map(work, chunks))
    return cases

def run_cases_par(prop, cases, k=8, nproc=4, chunk=120, timeout=900):
    """the same pipeline with `worker -par k`: the cases of a chunk run concurrently in one process, each on
    its own trees.  A worker that dies marks the first case without an observation as DIED."""
    chunks = [cases[i:i + chunk] for i in range(0, len(cases), chunk)]
    def work(ch):
        res, err = lib.run_pipeline(prop, [c["sx"] for c in ch], timeout=timeout, worker_args=["-par", str(k)])
        died = False
        for c, r in zip(ch, res):
            c["kind"], c["fields"], c["obs"] = r
            if "worker died" in c["obs"]:
                if not died:
                    c["kind"], c["fields"], died = "DIED", [err[-500:]], True
                else:
                    c["kind"], c["fields"] = "OK", ["0", "not run: the worker died earlier in this chunk"]
        for c in ch:
            c["meta"] = dict(c.get("meta") or {}, par=k, par_chunk=[x["sx"] for x in ch] if c["kind"] not in ("OK",) else None)
    with ThreadPoolExecutor(max_workers=nproc) as ex:
        list(ex.map(work, chunks))
    return cases

def par_eligible(mod, c):
    """cases that do not touch the process-wide math/rand source can share a process with others"""
    f = getattr(mod, "PAR_OK", False)
    if not f or "(seed " in c["sx"]:
        return False
    return f(c) if callable(f) else True

def match_known(prop, mod, case, known):
    for k in known:
        if k.get("property") != prop or k.get("status") != "open":
            continue
        m = getattr(mod, "MATCHERS", {}).get(k["id"])
        if m and m(case):
            return k
    return None

def write_replay(prop, case, note=None):
    d = os.path.join(build.OUTDIR, "replays")
    os.makedirs(d, exist_ok=True)
    body = {"property": prop, "case": case.get("sx"), "kind": case.get("kind"), "message": case.get("fields"),
            "obs": case.get("obs"), "meta": case.get("meta"), "note": note}
    h = hashlib.sha1(json.dumps(body, sort_keys=True).encode()).hexdigest()[:12]
    p = os.path.join(d, "%s-%s.json" % (prop, h))
    json.dump(body, open(p, "w"), indent=1)
    return p

def write_evidence(prop, ev):
    d = os.path.join(build.OUTDIR, "evidence")
    os.makedirs(d, exist_ok=True)
    json.dump(ev, open(os.path.join(d, prop + ".json"), "w"), indent=1)

def summarize(cases):
    dist = {}
    for c in cases:
        for k, v in (c.get("meta") or {}).items():
            dist.setdefault(k, {})
            dist[k][str(v)] = dist[k].get(str(v), 0) + 1
    tags = {}
    for c in cases:
        if c.get("kind") == "OK":
            t = c["fields"][1] if len(c["fields"]) > 1 else ""
            tags[t] = tags.get(t, 0) + 1
    return dist, tags

def run_check(prop, mod, tier, seed, st, known, t0):
    rng = random.Random(seed)
    ob = check_obligations(prop, st, tier)
    judge_ok = prop in st.get("judges", [prop])
    cases = []
    # corpus first
    cdir = os.path.join(VERIF, "corpus", prop)
    if os.path.isdir(cdir):
        for f in sorted(os.listdir(cdir)):
            for line in open(os.path.join(cdir, f)):
                line = line.strip()
                if line and not line.startswith("#"):
                    cases.append({"sx": line, "meta": {"src": "corpus"}})
    if hasattr(mod, "gen"):
        cases += list(mod.gen(rng, tier))
    extra_fail = []      # (name, detail, replay-body) from non-pipeline checks
    extra_info = {}
    if hasattr(mod, "extra"):
        extra_fail, extra_info = mod.extra(tier, seed, st)
    if cases and not judge_ok:
        # the judge (model) itself does not compile: no correspondence can be run
        ob["broken"].append("Judge/%s.v does not compile" % prop)
        cases = []
    if cases:
        run_cases(prop, cases)
        # concurrent pass: the cases that passed alone are run again, several at a time in one process
        elig = [c for c in cases if c.get("kind") == "OK" and par_eligible(mod, c) and len(c["sx"]) < 200000]
        npar = 480 if tier == "quick" else 4000
        if len(elig) > npar:
            elig = random.Random(seed + 2).sample(elig, npar)
        parc = [{"sx": c["sx"], "meta": dict(c.get("meta") or {})} for c in elig]
        if parc:
            run_cases_par(prop, parc)
            cases += parc
    viol = []          # oracle-level failures not in known findings
    knownhits = {}
    corr = []
    internal = []
    for c in cases:
        k = c.get("kind")
        if k == "OK":
            continue
        if k in ("ORACLE", "DIED"):
            kf = match_known(prop, mod, c, known)
            if kf:
                knownhits.setdefault(kf["id"], (kf, c))
            else:
                viol.append(c)
        elif k == "CORR":
            corr.append(c)
        else:
            internal.append(c)
    for name, detail, body in extra_fail:
        c = {"sx": None, "kind": "ORACLE", "fields": [detail], "obs": None, "meta": {"extra": name, "body": body}}
        kf = match_known(prop, mod, c, known)
        if kf:
            knownhits.setdefault(kf["id"], (kf, c))
        else:
            viol.append(c)
    lines = []
    rc = 0
    if internal:
        c = internal[0]
        print("check: internal error on case: %s %s\n  case=%s\n  obs=%s" % (c.get("kind"), c.get("fields"), (c.get("sx") or "")[:2000], (c.get("obs") or "")[:2000]), file=sys.stderr)
    searched = 0
    if (corr or ob["broken"]) and not viol and hasattr(mod, "gen") and getattr(mod, "SEARCH", True):
        # a tie or a proof no longer checks: search for a concrete failing input with the oracle
        budget = 120 if tier == "quick" else 900
        ts = time.time()
        srng = random.Random(seed + 1)
        while time.time() - ts < budget and not viol and judge_ok:
            more = list(mod.gen(srng, "search"))
            if not more:
                break
            run_cases(prop, more)
            searched += len(more)
            for c in more:
                if c.get("kind") in ("ORACLE", "DIED") and not match_known(prop, mod, c, known):
                    viol.append(c)
    for kid, (kf, c) in sorted(knownhits.items()):
        lines.append("KNOWN-FINDING: property=%s %s" % (prop, kf["what"]))
    if viol:
        viol.sort(key=lambda c: len(c.get("sx") or ""))
        c = viol[0]
        p = write_replay(prop, c)
        lines.append("VIOLATION property=%s replay=%s" % (prop, p))
        rc = 1
    elif corr or ob["broken"] or internal:
        note = {"proof_obligations_broken": ob["broken"], "correspondence_failures": len(corr),
                "first_correspondence_failure": None, "searched_cases": searched, "log": ob.get("log", "")}
        c = {"sx": None, "kind": "TIE", "fields": [], "obs": None, "meta": None}
        if corr:
            corr.sort(key=lambda c: len(c.get("sx") or ""))
            c = dict(corr[0])
            note["first_correspondence_failure"] = corr[0]["fields"]
        elif internal:
            c = dict(internal[0])
        p = write_replay(prop, c, note)
        lines.append("VIOLATION property=%s replay=%s no-failing-input-found" % (prop, p))
        rc = 1
    # evidence
    dist, tags = summarize(cases)
    okc = [c for c in cases if c.get("kind") == "OK"]
    nontriv = set()
    for c in okc:
        if c["fields"] and c["fields"][0] == "1":
            nontriv.add(hashlib.sha1(c["sx"].encode()).hexdigest())
    samples = []
    if cases:
        idx = [0, max(range(len(cases)), key=lambda i: len(cases[i]["sx"]))] + [rng.randrange(len(cases)) for _ in range(3)]
        for i in idx:
            c = cases[i]
            samples.append({"case": c["sx"][:1500], "verdict": [c.get("kind")] + list(c.get("fields", []))[:2], "meta": c.get("meta")})
    for x in (extra_info.get("samples") or [])[:10]:
        samples.append(x)
    for t in ob["theorems"][:40]:
        samples.append({"obligation": t})
    cov = {
        "obligations": ob["obligations"], "discharged": ob["discharged"],
        "checker_cmd": ob["checker_cmd"],
        "trusted_base": getattr(mod, "TRUSTED", []) + [
            "Coq 8.16.1 kernel + vm_compute; no native_compute",
            "axioms reported by Print Assumptions: " + (", ".join(ob["assumptions"]) if ob["assumptions"] else "none (Closed under the global context)"),
            "extraction (ExtrOcamlBasic, ExtrOcamlString; no Extract Constant) and ocaml/main.ml glue",
            "harness/worker (Go), driver/*.py",
        ],
        "theorems": ob["theorems"],
        "evaluations": len(cases) + searched + extra_info.get("evaluations", 0),
        "distinct_nontrivial": len(nontriv) + extra_info.get("distinct_nontrivial", 0),
        "rule": getattr(mod, "RULE", "") ,
        "samples": samples,
        "input_distribution": dist, "outcome_tags": tags,
        "correspondence_failures": len(corr), "oracle_failures": len(viol), "known_findings_hit": sorted(knownhits),
        "proof_broken": ob["broken"], "extra": extra_info, "coqchk": ob.get("coqchk"),
        "exhaustive": False,
    }
    ev = {"property_id": prop, "tier": tier, "seed": seed, "level": getattr(mod, "LEVEL", "proof") if getattr(mod, "LEVEL", "proof") in ("exploration", "fault_enumeration", "model_checking", "proof", "translation_validation", "other") else "proof",
          "coverage": cov, "assumptions": getattr(mod, "ASSUMPTIONS", []),
          "wall_s": round(time.time() - t0, 2), "violations": len(viol) + (1 if (rc == 1 and not viol) else 0)}
    write_evidence(prop, ev)
    for l in lines:
        print(l)
    print("check %s tier=%s: %d cases, %d ok (%d distinct non-trivial), %d corr, %d oracle, %d known; obligations %d/%d; %.1fs" %
          (prop, tier, len(cases), len(okc), len(nontriv), len(corr), len(viol), len(knownhits), ob["discharged"], ob["obligations"], time.time() - t0))
    if internal and rc == 0:
        return 3
    return rc

def report_unbuildable(prop, tier, seed, st, t0):
    c = {"sx": None, "kind": "BUILD", "fields": [st.get("worker_error", st.get("log", ""))[-3000:]], "obs": None, "meta": None}
    p = write_replay(prop, c, {"correspondence": "the Go harness or the judge no longer builds against /repo's working tree"})
    ev = {"property_id": prop, "tier": tier, "seed": seed, "level": "proof",
          "coverage": {"obligations": 1, "discharged": 0, "checker_cmd": "go build -tags verif ./worker", "trusted_base": [],
                       "evaluations": 0, "distinct_nontrivial": 0, "samples": [{"build": "failed"}]},
          "wall_s": round(time.time() - t0, 2), "violations": 1}
    write_evidence(prop, ev)
    print("VIOLATION property=%s replay=%s no-failing-input-found" % (prop, p))
    return 1

def replay(prop, mod, path):
    body = json.load(open(path))
    if not body.get("case"):
        print("replay file names a broken proof obligation or correspondence, not an input:")
        print(json.dumps(body.get("note"), indent=1)[:3000])
        return 1
    cases = [{"sx": body["case"], "meta": {}}]
    chunk = (body.get("meta") or {}).get("par_chunk")
    if chunk:
        # found in the concurrent pass: run the same group of cases together again (a few attempts:
        # whether the interleaving recurs is up to the scheduler)
        for attempt in range(5):
            group = [{"sx": s, "meta": {}} for s in chunk]
            run_cases_par(prop, group, k=body["meta"].get("par", 8), nproc=1, chunk=len(group))
            bad = [c for c in group if c.get("kind") != "OK"]
            if bad:
                cases = [bad[0]]
                break
        else:
            cases = [group[0]]
    else:
        run_cases(prop, cases, nproc=1)
    c = cases[0]
    print("case   :", c["sx"][:3000])
    print("obs    :", (c.get("obs") or "")[:3000])
    print("verdict:", c.get("kind"), c.get("fields"))
    return 0 if c.get("kind") == "OK" else 1
