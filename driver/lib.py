"""Shared driver code: s-expression writer, tree generators, pipeline runner.
Python 3 standard library only.  Every random choice comes from one random.Random(seed)."""
import os, subprocess, sys, json, time, hashlib, random
from fractions import Fraction

VERIF = os.path.dirname(os.path.dirname(os.path.abspath(__file__)))
import build as _build
BUILD = _build.BUILD

# ---------------------------------------------------------------- s-expressions

def q(s):
    """quote an atom"""
    if isinstance(s, bytes):
        bs = s
    else:
        bs = s.encode("utf-8", "surrogateescape")
    out = ['"']
    for c in bs:
        if c in (0x22, 0x5c):
            out.append("\\" + chr(c))
        elif c < 0x20 or c >= 127:
            out.append("\\x%02x" % c)
        else:
            out.append(chr(c))
    out.append('"')
    return "".join(out)

def num(x):
    """exact rational; None is the -1 'absent' sentinel"""
    if x is None:
        return "-1"
    x = Fraction(x)
    if x.denominator == 1:
        return str(x.numerator)
    return "%d/%d" % (x.numerator, x.denominator)

def sx(v):
    """Python value -> s-expression text.  str: quoted atom; Sym: bare atom; int/bool/Fraction; list/tuple: list;
    dict: association list."""
    if isinstance(v, Sym):
        return v.s
    if isinstance(v, bool):
        return "T" if v else "F"
    if isinstance(v, int):
        return str(v)
    if isinstance(v, Fraction):
        return num(v)
    if isinstance(v, (str, bytes)):
        return q(v)
    if isinstance(v, dict):
        return "(" + " ".join("(%s %s)" % (k, sx(x)) for k, x in v.items()) + ")"
    if isinstance(v, (list, tuple)):
        return "(" + " ".join(sx(x) for x in v) + ")"
    if v is None:
        return "()"
    raise TypeError(type(v))

class Sym:
    def __init__(self, s): self.s = s

def parse_sexp(text):
    """s-expression text -> nested lists / str atoms (quoted or bare, both as str)."""
    pos = 0
    n = len(text)
    def skip():
        nonlocal pos
        while pos < n and text[pos] in " \n\r":
            pos += 1
    def item():
        nonlocal pos
        skip()
        c = text[pos]
        if c == "(":
            pos += 1
            r = []
            while True:
                skip()
                if text[pos] == ")":
                    pos += 1
                    return r
                r.append(item())
        if c == '"':
            pos += 1
            out = bytearray()
            while text[pos] != '"':
                if text[pos] == "\\":
                    d = text[pos + 1]
                    if d == "x":
                        out.append(int(text[pos + 2:pos + 4], 16)); pos += 4
                    else:
                        out += {"n": b"\n", "t": b"\t", "r": b"\r"}.get(d, d.encode()); pos += 2
                else:
                    out += text[pos].encode(); pos += 1
            pos += 1
            return out.decode("utf-8", "surrogateescape")
        start = pos
        while pos < n and text[pos] not in ' ()"\n\r':
            pos += 1
        return text[start:pos]
    return item()

def alist(l):
    return {x[0]: x[1] for x in l if isinstance(x, list) and len(x) == 2 and isinstance(x[0], str)}

# ---------------------------------------------------------------- trees
# node  = {"name": str, "coms": [str], "slots": [None | (edge, node)]}
# edge  = {"len": Fraction|None, "sup": ..., "pv": ..., "coms": [str]}

def tree_sx(t):
    slots = []
    for s in t["slots"]:
        if s is None:
            slots.append("U")
        else:
            e, c = s
            slots.append("(D %s %s %s %s %s)" % (num(e["len"]), num(e["sup"]), num(e["pv"]), sx(e["coms"]), tree_sx(c)))
    return "(N %s %s (%s))" % (q(t["name"]), sx(t["coms"]), " ".join(slots))

class T(Sym):
    """a tree value inside a case"""
    def __init__(self, t):
        self.t = t
        self.s = tree_sx(t)

def sx_to_tree(l):
    """parsed (N name coms slots) -> node dict"""
    slots = []
    for s in l[3]:
        if s == "U":
            slots.append(None)
        else:
            slots.append(({"len": _f(s[1]), "sup": _f(s[2]), "pv": _f(s[3]), "coms": list(s[4])}, sx_to_tree(s[5])))
    return {"name": l[1], "coms": list(l[2]), "slots": slots}

def _f(a):
    x = Fraction(a)
    return None if x == -1 else x

def kids(t):
    return [s for s in t["slots"] if s is not None]

def n_nodes(t):
    return 1 + sum(n_nodes(c) for _, c in kids(t))

def leaves(t):
    k = kids(t)
    if not k:
        return [t["name"]]
    r = []
    for _, c in k:
        r += leaves(c)
    return r

def preorder(t):
    yield t
    for _, c in kids(t):
        yield from preorder(c)

def newick(t, top=True):
    """plain newick of a node dict (names/lengths/supports only), for samples and messages"""
    k = kids(t)
    s = ""
    if k:
        parts = []
        for e, c in k:
            p = newick(c, False)
            if e["sup"] is not None and c["name"] == "" and kids(c):
                p += _fmt(e["sup"])
            if e["len"] is not None:
                p += ":" + _fmt(e["len"])
            parts.append(p)
        s = "(" + ",".join(parts) + ")"
    s += t["name"]
    return s + (";" if top else "")

def _fmt(x):
    f = float(x)
    r = repr(f)
    if r.endswith(".0"):
        r = r[:-2]
    return r

class Gen:
    """random tree generator"""
    def __init__(self, rng):
        self.rng = rng

    def dyadic(self, maxnum=64, den=64):
        return Fraction(self.rng.randrange(0, maxnum + 1), den)

    def length(self, mode):
        r = self.rng.random()
        if mode == "all":       # every branch has a length
            if r < 0.12: return Fraction(0)
            return self.dyadic(256, 64)
        if mode == "none":
            return None
        # mixed
        if r < 0.15: return None
        if r < 0.27: return Fraction(0)
        return self.dyadic(256, 64)

    def support(self, mode):
        r = self.rng.random()
        if mode == "none": return None
        if mode == "all": return self.dyadic(64, 64) if r > 0.1 else Fraction(self.rng.choice([0, 1]))
        if r < 0.3: return None
        return self.dyadic(64, 64)

    def shape(self, names, maxdeg=4, rootdeg=None):
        """random rooted shape over the given leaf names: nested lists"""
        rng = self.rng
        def build(ns, deg_hint=None):
            if len(ns) == 1:
                return ns[0]
            k = deg_hint or min(len(ns), rng.choice([2, 2, 2, 3, 3, 4, 5, 6][:max(1, maxdeg + 2)]))
            k = max(2, min(k, len(ns), maxdeg if deg_hint is None else k))
            # split ns into k non-empty groups
            cuts = sorted(rng.sample(range(1, len(ns)), k - 1))
            groups = [ns[a:b] for a, b in zip([0] + cuts, cuts + [len(ns)])]
            style = rng.random()
            if style < 0.25 and k == 2 and len(ns) > 2:
                # caterpillar-ish: one tip vs the rest
                groups = [ns[:1], ns[1:]]
            return [build(g) for g in groups]
        ns = list(names)
        rng.shuffle(ns)
        return build(ns, rootdeg)

    def decorate(self, shape, lenmode="mixed", supmode="mixed", inner_names=False, comments=False, up_random=False):
        """shape -> node dict (root)"""
        rng = self.rng
        counter = [0]
        def com():
            if not comments or rng.random() < 0.7:
                return []
            return [rng.choice(["c", "&x=1", "a b", "k:v", "z,w", "(p)", "q;r"]) for _ in range(rng.choice([1, 1, 2, 3]))]
        def mk(sh, is_root):
            if not isinstance(sh, list):
                return {"name": sh, "coms": com(), "slots": [] if is_root else [None]}
            counter[0] += 1
            name = ""
            if inner_names and rng.random() < 0.4:
                name = "I%d" % counter[0]
            slots = []
            for ch in sh:
                c = mk(ch, False)
                istip = not isinstance(ch, list)
                e = {"len": self.length(lenmode),
                     "sup": None if (istip or c["name"] != "") else self.support(supmode),
                     "pv": None, "coms": []}
                if comments and e["len"] is not None and rng.random() < 0.15:
                    e["coms"] = [rng.choice(["ec", "&e=2", "x y"])]
                if e["sup"] is not None and rng.random() < 0.15:
                    e["pv"] = self.dyadic(64, 64)
                slots.append((e, c))
            if not is_root:
                pos = rng.randrange(0, len(slots) + 1) if up_random else 0
                slots.insert(pos, None)
            return {"name": name, "coms": com(), "slots": slots}
        return mk(shape, True)

    def tree(self, ntips=None, rooted=None, maxdeg=4, lo=3, hi=12, prefix="t", **kw):
        rng = self.rng
        n = ntips or rng.randint(lo, hi)
        names = ["%s%d" % (prefix, i) for i in range(n)]
        if rooted is None:
            rooted = rng.random() < 0.4
        if n == 2:
            rootdeg = 2
        elif rooted:
            rootdeg = 2
        else:
            rootdeg = min(n, max(3, rng.choice([3, 3, 3, 4, 5])))
        sh = self.shape(names, maxdeg=maxdeg, rootdeg=rootdeg)
        return self.decorate(sh, **kw)

def all_shapes(names):
    """every rooted (possibly multifurcating) shape on the given ordered names, as nested lists; root has >= 2 children.
    Enumerates set partitions recursively; for small n only."""
    names = list(names)
    if len(names) == 1:
        return [names[0]]
    res = []
    def partitions(ns):
        if not ns:
            yield []
            return
        first, rest = ns[0], ns[1:]
        for k in range(len(rest) + 1):
            from itertools import combinations
            for comb in combinations(rest, k):
                block = [first] + list(comb)
                remaining = [x for x in rest if x not in comb]
                for p in partitions(remaining):
                    yield [block] + p
    for p in partitions(names):
        if len(p) < 2:
            continue
        subs = [all_shapes(b) if len(b) > 1 else [b[0]] for b in p]
        from itertools import product
        for combo in product(*subs):
            res.append(list(combo))
    return res

# ---------------------------------------------------------------- pipeline

def run_pipeline(prop, cases, timeout=600, worker_args=None):
    """cases: list of s-expression strings.  Returns list of (verdict_kind, fields, obs_text) per case."""
    ids = [str(i) for i in range(len(cases))]
    winput = "".join("%s\t%s\t%s\n" % (prop, i, c) for i, c in zip(ids, cases))
    w = subprocess.run([os.path.join(BUILD, "worker-" + prop)] + (worker_args or []), input=winput.encode(),
                       stdout=subprocess.PIPE, stderr=subprocess.PIPE, timeout=timeout)
    obs = {}
    for line in w.stdout.decode("utf-8", "surrogateescape").split("\n"):
        if "\t" in line:
            i, o = line.split("\t", 1)
            obs[i] = o
    crashed = w.returncode != 0
    jinput = []
    for i, c in zip(ids, cases):
        o = obs.get(i)
        if o is None:
            o = '((panic "worker died: %s"))' % ("exit %d" % w.returncode)
        jinput.append("%s\t%s\t%s\t%s\n" % (prop, i, c, o))
    j = subprocess.run([os.path.join(BUILD, "judge-" + prop)], input="".join(jinput).encode(),
                       stdout=subprocess.PIPE, stderr=subprocess.PIPE, timeout=timeout)
    if j.returncode != 0:
        raise RuntimeError("judge failed: " + j.stderr.decode()[-2000:])
    verdicts = {}
    for line in j.stdout.decode("utf-8", "surrogateescape").split("\n"):
        parts = line.split("\t")
        if len(parts) >= 2:
            verdicts[parts[0]] = parts[1:]
    out = []
    for i in ids:
        v = verdicts.get(i, ["BAD", "no verdict"])
        out.append((v[0], v[1:], obs.get(i, "")))
    return out, (w.stderr.decode("utf-8", "replace")[-2000:] if crashed else "")
