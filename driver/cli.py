"""Helpers to run the real `gotree` binary (built from /repo's working tree) in scratch directories under /verif/build."""
import os, subprocess, shutil, hashlib, tempfile
import build

GOTREE = os.path.join(build.BUILD, "gotree")

def build_gotree():
    rc, out = build.sh(["go", "build"] + build.COVER_FLAGS + ["-o", GOTREE + ".tmp", "."], cwd=build.REPO, env=build.GOENV, timeout=900)
    if rc != 0:
        return False, out[-3000:]
    os.replace(GOTREE + ".tmp", GOTREE)
    return True, ""

def scratch(prefix):
    d = os.path.join(build.BUILD, "tmp")
    os.makedirs(d, exist_ok=True)
    return tempfile.mkdtemp(prefix=prefix, dir=d)

def run(argv, cwd, stdin=None, timeout=60):
    """returns (rc, stdout bytes, stderr bytes); rc = -9 on timeout"""
    try:
        p = subprocess.run([GOTREE] + argv, cwd=cwd, input=stdin, stdout=subprocess.PIPE, stderr=subprocess.PIPE, timeout=timeout)
        return p.returncode, p.stdout, p.stderr
    except subprocess.TimeoutExpired as e:
        return -9, e.stdout or b"", e.stderr or b""
