#!/usr/bin/env python3
"""Regenerates the generated sections of DESIGN.md (between <!-- GEN:x --> and <!-- /GEN:x --> markers)."""
import json, os, re, subprocess, glob
VERIF = os.path.dirname(os.path.dirname(os.path.abspath(__file__)))
def props_table():
    rows = ["| id | obligations (Properties/Cnn*.v) | quick cases | distinct non-trivial | known findings | wall (s) |", "|---|---|---|---|---|---|"]
    for f in sorted(glob.glob(os.path.join(VERIF, "evidence", "C*.json"))):
        e = json.load(open(f)); c = e["coverage"]
        rows.append("| %s | %d/%d | %d | %d | %s | %.0f |" % (e["property_id"], c.get("discharged", 0), c.get("obligations", 0), c.get("evaluations", 0),
                    c.get("distinct_nontrivial", 0), ", ".join(c.get("known_findings_hit", [])) or "-", e.get("wall_s", 0)))
    return "\n".join(rows)
def findings():
    k = json.load(open(os.path.join(VERIF, "known_findings.json")))["findings"]
    out = ["**Repaired in /repo (one `fix:` commit each; the check passes on the repaired tree and reports the violation again if it returns):**", ""]
    for f in k:
        if f["status"] == "fixed":
            out.append("* `%s` — %s" % (f["id"], f["what"].replace("fixed: ", "")))
    out += ["", "**Open (reported as KNOWN-FINDING by the check, matched by a narrow matcher in `driver/props/<id>.py`):**", ""]
    for f in k:
        if f["status"] == "open":
            out.append("* `%s` (%s) — %s" % (f["id"], f["property"], f["what"]))
    return "\n".join(out)
def seeds():
    return subprocess.run(["python3", os.path.join(VERIF, "tools", "seed_table.py")], capture_output=True, text=True).stdout
GEN = {"props": props_table, "findings": findings, "seeds": seeds}
p = os.path.join(VERIF, "DESIGN.md")
s = open(p).read()
for k, fn in GEN.items():
    s = re.sub(r"<!-- GEN:%s -->.*?<!-- /GEN:%s -->" % (k, k), lambda m: "<!-- GEN:%s -->\n%s\n<!-- /GEN:%s -->" % (k, fn().strip(), k), s, flags=re.S)
open(p, "w").write(s)
print("DESIGN.md regenerated sections:", ", ".join(GEN))
