#!/usr/bin/env python3
"""Prints a markdown table of the seeded changes under /verif/seeded and which checks caught them."""
import json, os, glob
VERIF = os.path.dirname(os.path.dirname(os.path.abspath(__file__)))
rows = []
for d in sorted(glob.glob(os.path.join(VERIF, "seeded", "*"))):
    mp = os.path.join(d, "meta.json")
    if not os.path.exists(mp):
        continue
    m = json.load(open(mp))
    c = m.get("confirmation", {})
    st = c.get("steps", {})
    confirmed = st.get("demo_without_change") == "pass" and str(st.get("demo_with_change", "")).startswith("fails") and st.get("test_suite_with_change") == "pass" and st.get("build_with_change") == "pass"
    checks = []
    for p, r in sorted(c.get("checks", {}).items()):
        how = ""
        if r.get("detected"):
            v = [l for l in r.get("lines", []) if l.startswith("VIOLATION")]
            how = "no-failing-input-found (tie/proof broken)" if v and "no-failing-input-found" in v[0] else "failing input replayed"
            checks.append("**%s**: %s" % (p, how))
        else:
            checks.append("%s: missed" % p)
    summary = (m.get("summary") or "").replace("\n", " ").replace("|", "/")
    needs = (m.get("needs") or "").replace("\n", " ").replace("|", "/")
    rows.append("| %s | %s | %s | %s | %s |" % (os.path.basename(d), summary[:230], needs[:200], "yes" if confirmed else "NO", "; ".join(checks)))
print("| seed | change | needs to manifest | confirmed | checks |")
print("|---|---|---|---|---|")
print("\n".join(rows))
