package main

import (
	"fmt"
	"go/ast"
	"go/token"
	"go/types"
	"sort"
	"strings"

	"golang.org/x/tools/go/packages"
)

// refish reports whether a value of type t can alias storage (slice, map, pointer, channel, function,
// interface, or an aggregate containing one), so that merely reading a package-level variable of that
// type hands the same storage to every caller.
func refish(t types.Type, seen map[types.Type]bool) bool {
	if seen[t] {
		return false
	}
	seen[t] = true
	switch u := t.Underlying().(type) {
	case *types.Basic:
		return u.Kind() == types.UnsafePointer
	case *types.Slice, *types.Map, *types.Pointer, *types.Chan, *types.Signature, *types.Interface:
		return true
	case *types.Array:
		return refish(u.Elem(), seen)
	case *types.Struct:
		for i := 0; i < u.NumFields(); i++ {
			if refish(u.Field(i).Type(), seen) {
				return true
			}
		}
		return false
	}
	return true
}

type globalUse struct {
	fn    string
	write bool
}

// rootIdent returns the identifier at the root of an addressable expression (x, x[i], x.f, *x, x[i:j]).
func rootIdent(e ast.Expr) *ast.Ident {
	for {
		switch v := e.(type) {
		case *ast.Ident:
			return v
		case *ast.IndexExpr:
			e = v.X
		case *ast.SelectorExpr:
			e = v.X
		case *ast.StarExpr:
			e = v.X
		case *ast.ParenExpr:
			e = v.X
		case *ast.SliceExpr:
			e = v.X
		default:
			return nil
		}
	}
}

// genGlobals lists every package-level variable of the library packages (everything except cmd and
// main), with the functions that refer to it and those that write it (assignment, ++/--, range
// variable, address taken).  Test files are not loaded.
func genGlobals(pkgs []*packages.Package, mod, repo string) string {
	type entry struct {
		pkg, name, typ string
		refish         bool
		refs, writes   []string
		line           int
		file           string
	}
	var entries []entry
	// variable object -> uses, over all packages (exported variables can be used elsewhere)
	uses := map[types.Object][]globalUse{}
	isGlobal := func(o types.Object) bool {
		v, ok := o.(*types.Var)
		if !ok || v.Pkg() == nil || v.IsField() {
			return false
		}
		if !strings.HasPrefix(v.Pkg().Path(), mod) {
			return false
		}
		return v.Parent() == v.Pkg().Scope()
	}
	for _, p := range pkgs {
		for _, f := range p.Syntax {
			for _, d := range f.Decls {
				fd, ok := d.(*ast.FuncDecl)
				var body ast.Node
				fn := ""
				if ok {
					if fd.Body == nil {
						continue
					}
					body, fn = fd.Body, funcName(fd)
				} else if gd, ok2 := d.(*ast.GenDecl); ok2 && gd.Tok == token.VAR {
					body, fn = gd, "var-initialiser"
				} else {
					continue
				}
				fn = relFile(repo, p.Fset.Position(d.Pos()).Filename) + ":" + fn
				written := map[*ast.Ident]bool{}
				ast.Inspect(body, func(n ast.Node) bool {
					switch s := n.(type) {
					case *ast.AssignStmt:
						for _, l := range s.Lhs {
							if id := rootIdent(l); id != nil {
								written[id] = true
							}
						}
					case *ast.IncDecStmt:
						if id := rootIdent(s.X); id != nil {
							written[id] = true
						}
					case *ast.RangeStmt:
						if s.Tok == token.ASSIGN {
							for _, l := range []ast.Expr{s.Key, s.Value} {
								if l != nil {
									if id := rootIdent(l); id != nil {
										written[id] = true
									}
								}
							}
						}
					case *ast.UnaryExpr:
						if s.Op == token.AND {
							if id := rootIdent(s.X); id != nil {
								written[id] = true
							}
						}
					}
					return true
				})
				ast.Inspect(body, func(n ast.Node) bool {
					id, ok := n.(*ast.Ident)
					if !ok {
						return true
					}
					o := p.TypesInfo.Uses[id]
					if o == nil || !isGlobal(o) {
						return true
					}
					uses[o] = append(uses[o], globalUse{fn, written[id]})
					return true
				})
			}
		}
	}
	for _, p := range pkgs {
		if p.Types == nil || p.Name == "main" || p.PkgPath == mod+"/cmd" {
			continue
		}
		sc := p.Types.Scope()
		for _, nm := range sc.Names() {
			o := sc.Lookup(nm)
			if !isGlobal(o) {
				continue
			}
			pos := p.Fset.Position(o.Pos())
			e := entry{pkg: strings.TrimPrefix(strings.TrimPrefix(p.PkgPath, mod), "/"), name: nm,
				typ:    types.TypeString(o.Type(), func(q *types.Package) string { return q.Name() }),
				refish: refish(o.Type(), map[types.Type]bool{}), line: pos.Line, file: relFile(repo, pos.Filename)}
			rs, ws := map[string]bool{}, map[string]bool{}
			for _, u := range uses[o] {
				if strings.HasSuffix(u.fn, ":var-initialiser") || strings.HasSuffix(u.fn, ":init") {
					continue // runs once, before main, single-threaded
				}
				rs[u.fn] = true
				if u.write {
					ws[u.fn] = true
				}
			}
			for k := range rs {
				e.refs = append(e.refs, k)
			}
			for k := range ws {
				e.writes = append(e.writes, k)
			}
			sort.Strings(e.refs)
			sort.Strings(e.writes)
			entries = append(entries, e)
		}
	}
	sort.Slice(entries, func(i, j int) bool {
		if entries[i].pkg != entries[j].pkg {
			return entries[i].pkg < entries[j].pkg
		}
		return entries[i].name < entries[j].name
	})
	var b strings.Builder
	b.WriteString("(* Generated by tools/gotrans from /repo on every run. Do not edit.\n")
	b.WriteString("   Every package-level variable of the library packages (all but cmd and main): whether its type can\n")
	b.WriteString("   alias storage, the functions that refer to it and the functions that write it (assignment, ++/--,\n")
	b.WriteString("   range variable, address taken); uses in init functions and variable initialisers are left out. *)\n")
	b.WriteString("From Coq Require Import String List.\nFrom GT Require Import Model.Globals.\nImport ListNotations.\nLocal Open Scope string_scope.\n\n")
	b.WriteString("Definition globals : list gvar := [\n")
	for i, e := range entries {
		sep := ";"
		if i == len(entries)-1 {
			sep = ""
		}
		fmt.Fprintf(&b, "  mkG %s %s %s %s %s %s%s  (* %s:%d *)\n", coqString(e.pkg), coqString(e.name), coqString(e.typ),
			coqBool(e.refish), coqStringList(e.refs), coqStringList(e.writes), sep, e.file, e.line)
	}
	b.WriteString("].\n")
	return b.String()
}
