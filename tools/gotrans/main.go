// Command gotrans regenerates coq/Gen/*.v from the Go sources of /repo on every run:
//
//	Flags.v      every pflag registration X.Flags()/PersistentFlags().TVar[P](&v, name, [short,] default, usage)
//	             of every init() in cmd/, in Go's initialisation order, with the command path
//	MapRanges.v  every `range` statement over a map-typed operand (file, function, body digest)
//	Pools.v      facts about the goroutine worker pools of tree.Compare, tree.CompareWeighted,
//	             support.FBP, support.TBE (captured variables assigned in workers, exits without Done)
//	Globals.v    every package-level variable of the library packages with the functions that read / write it
//	Narrow.v     per declaration of the library packages, the spelled-out numeric types narrower than 64 bits
//	Structs.v    every named struct type of the library packages with its fields
//
// It is part of the trusted base; its tables are cross-checked at run time by the harness.
package main

import (
	"flag"
	"fmt"
	"os"
	"path/filepath"

	"golang.org/x/tools/go/packages"
)

func must(err error) {
	if err != nil {
		fmt.Fprintln(os.Stderr, "gotrans:", err)
		os.Exit(1)
	}
}

func writeIfChanged(path, content string) {
	old, err := os.ReadFile(path)
	if err == nil && string(old) == content {
		return
	}
	must(os.MkdirAll(filepath.Dir(path), 0o755))
	must(os.WriteFile(path, []byte(content), 0o644))
}

func main() {
	repo := flag.String("repo", "/repo", "repository root")
	out := flag.String("out", "/verif/coq/Gen", "output directory")
	flag.Parse()
	cfg := &packages.Config{
		Mode: packages.NeedName | packages.NeedFiles | packages.NeedSyntax | packages.NeedTypes |
			packages.NeedTypesInfo | packages.NeedImports | packages.NeedCompiledGoFiles,
		Dir: *repo,
		Env: append(os.Environ(), "GOFLAGS=-mod=mod", "GOPROXY=off", "GOSUMDB=off", "GOTOOLCHAIN=local"),
	}
	pkgs, err := packages.Load(cfg, "./...")
	must(err)
	nerr := 0
	for _, p := range pkgs {
		for _, e := range p.Errors {
			fmt.Fprintln(os.Stderr, "gotrans: load:", e)
			nerr++
		}
	}
	if nerr > 0 {
		os.Exit(1)
	}
	byPath := map[string]*packages.Package{}
	for _, p := range pkgs {
		byPath[p.PkgPath] = p
	}
	const mod = "github.com/evolbioinfo/gotree"
	writeIfChanged(filepath.Join(*out, "Flags.v"), genFlags(byPath[mod+"/cmd"], *repo))
	writeIfChanged(filepath.Join(*out, "MapRanges.v"), genMapRanges(pkgs, *repo))
	writeIfChanged(filepath.Join(*out, "Pools.v"), genPools(byPath, mod, *repo))
	writeIfChanged(filepath.Join(*out, "Globals.v"), genGlobals(pkgs, mod, *repo))
	writeIfChanged(filepath.Join(*out, "Narrow.v"), genNarrow(pkgs, mod, *repo))
	writeIfChanged(filepath.Join(*out, "Structs.v"), genStructs(pkgs, mod, *repo))
}
