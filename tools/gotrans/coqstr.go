package main

import "strings"

// coqString renders s as a Coq string literal (only printable ASCII is expected; other bytes are dropped to '?').
func coqString(s string) string {
	var b strings.Builder
	b.WriteByte('"')
	for i := 0; i < len(s); i++ {
		c := s[i]
		switch {
		case c == '"':
			b.WriteString(`""`)
		case c < 32 || c > 126:
			b.WriteByte('?')
		default:
			b.WriteByte(c)
		}
	}
	b.WriteByte('"')
	return b.String()
}

func coqBool(b bool) string {
	if b {
		return "true"
	}
	return "false"
}

func coqStringList(l []string) string {
	parts := make([]string, len(l))
	for i, s := range l {
		parts[i] = coqString(s)
	}
	return "[" + strings.Join(parts, "; ") + "]"
}
