#!/bin/bash
# usage: tools/try_seed.sh <patch.diff> <Cxx> [<Cyy> ...]
# Applies a seeded change to a scratch worktree of /repo (never to /repo itself while other work
# is running), runs the named checks against it (VERIF_REPO), prints their verdict lines, removes the worktree.
set -u
patch=$(readlink -f "$1"); shift
wt=$(mktemp -d /tmp/seedrun-XXXXXX)
rmdir "$wt"
git -C /repo worktree add -q --detach "$wt" HEAD || exit 2
if ! git -C "$wt" apply "$patch"; then echo "PATCH DOES NOT APPLY"; git -C /repo worktree remove --force "$wt"; exit 2; fi
cd /verif
for p in "$@"; do
  echo "=== $p on $(basename $patch) ==="
  VERIF_REPO="$wt" timeout 1500 ./check "$p" --tier quick 2>&1 | grep -E "VIOLATION|KNOWN-FINDING|^check " | sed "s|$wt|<wt>|g"
done
git -C /repo worktree remove --force "$wt"
h=$(python3 -c "import hashlib,sys;print(hashlib.sha1(sys.argv[1].encode()).hexdigest()[:8])" "$wt")
rm -rf "/verif/build/alt-$h"
