#!/usr/bin/env python3
"""Regenerates /verif/known_findings.json.  Run by hand after a fix commit or a new finding; never at check time."""
import json, subprocess, os
VERIF = os.path.dirname(os.path.dirname(os.path.abspath(__file__)))
log = subprocess.run(['git', '-C', '/repo', 'log', '--format=%h %s'], capture_output=True, text=True).stdout.strip().split('\n')
def commit(prefix):
    for l in log:
        if prefix in l:
            return l.split()[0]
    raise SystemExit("no commit matching: " + prefix)

FIXED = [
 ("C03", "C03-internal-edges", "InternalEdges listed", "InternalEdges() returned tip branches below depth 2 (internalEdgesRecur recursed into edgesRecur), so internal+external != all branches; witness ((a,b),(c,d),e)"),
 ("C19", "C19-cutoff-shared", "brlen setmin shared", "`gotree compute consensus` without -f used 0 instead of the documented 0.5: brlen setmin registered its --length (default 0) on the same variable `cutoff`"),
 ("C19", "C19-compared-shared", "annotate and merge shared", "`gotree annotate` / `gotree merge` without -c used none instead of the documented stdin: intree2file was re-registered with default none by compare, graft, prune, roccurve"),
 ("C19", "C19-output-shared", "divide shared", "`gotree divide` without -o used stdout instead of the documented prefix: outtreefile re-registered with default stdout by later commands"),
 ("C12", "C12-asr-acctran-narrows-tip", "sequence ACCTRAN narrowed", "asr ACCTRAN altered an ambiguous tip: tree (a,b,c), a=R b=A c=A, --algo acctran annotated tip a with A instead of {AG}"),
 ("C11", "C11-fbp-hang", "FBP workers returned without wg.Done", "support.FBP blocked forever when the bootstrap stream carried an erroneous tree (worker returned without wg.Done); workers also wrote the captured err unsynchronised"),
 ("C11", "C11-compareweighted-shared-edges", "CompareWeighted workers shared", "tree.CompareWeighted with several threads: workers assigned the captured compEdges, so a tree's terms were computed on another tree's branches (and a data race)"),
 ("C11", "C11-weighted-drain-nil", "compare trees --weighted drained a nil channel", "`gotree compare trees --weighted` blocked forever on an erroneous compared tree (for range over the nil channel stats)"),
 ("C11", "C11-supporter-race", "Supporter progress and cancel flag", "data race on Supporter.progress (IncrementProgress from several FBP workers), reported by the race detector"),
 ("C10", "C10-fbp-foreign-taxa", "FBP ignored bootstrap trees", "support.FBP accepted a bootstrap tree on other taxa: ref (a,b,(c,d)), boot (a,b,(c,zz)) gave err=nil and support 1 (tested err instead of inerr)"),
 ("C10", "C10-tbe-foreign-taxa", "TBE only logged", "support.TBE accepted a bootstrap tree on other taxa unless it was the last one: ref (a,b,(c,d)), boots [(a,b,(c,zz)),(a,b,(c,d))] gave err=nil"),
 ("C06", "C06-stale-tipindex", "RemoveTips left the tip name index stale", "after RemoveTips(false,\"t0\") on (t0,t1,t2,t3): ExistsTip(\"t0\")=true, TipNode(\"t0\") returned the deleted node, tip count still 4"),
 ("C18", "C18-acr-out-states", "acr --out-states listed", "`gotree acr --out-states` wrote node,state lines in hash-map iteration order (differs between identical runs)"),
 ("C18", "C18-rename-map", "rename wrote the name map", "`gotree rename --auto -m map` wrote the map file in hash-map iteration order"),
 ("C18", "C18-mutations", "compute mutations printed", "`gotree compute mutations` (with and without --eems) printed its records in hash-map iteration order"),
 ("C18", "C18-comparetips", "compare tips listed", "`gotree compare tips` with a tip file listed the file's names in hash-map iteration order"),
 ("C18", "C18-ncbitax-map", "NCBI taxonomy download wrote", "download ncbitax wrote its map file in hash-map iteration order"),
 ("C18", "C18-asr-all-amino", "ancestral sequence reconstruction expanded", "`gotree asr` on a protein alignment with X: the any-amino-acid code was expanded by ranging over a map and dropping the last two entries, i.e. two random characters instead of '-' and '*'; output differed between identical runs"),
 ("C18", "C18-counteems", "CountEEMs kept the branch index", "mutations.CountEEMs kept, for each (site,parent,child), the branch index and node name of whichever occurrence the map iteration met first"),
 ("C02", "C02-splitter-blank-line", "multi-tree Newick splitter indexed position -1", "ReadUntilSemiColon panicked (index -1) on a line made of blanks only, e.g. the single byte \" \"; through ReadMultiTrees the whole process died"),
 ("C02", "C02-nexus-comment-eof-hang", "Nexus parser looped forever", "the Nexus parser never returned on \"#NEXUS[\" (unterminated comment: consumeComment did not leave on EOF)"),
 ("C02", "C02-nexus-format-char-index", "Nexus parser indexed an empty value", "the Nexus parser panicked (index 0 of empty) on \"#NEXUS BEGIN DATA;FORMAT GAP\" / \"FORMAT MISSING=\""),
 ("C05", "C05-outgroup-zero-length-cut", "rooting on an outgroup separated by a zero-length branch", "`echo \"((a:1,b:1)0.8:0,c:1,d:1);\" | gotree reroot outgroup a b` gave ((c:1,d:1),(a:1,b:1)); the cut branch's length 0 and support 0.8 were lost (`if length > 0`)"),
 ("C05", "C05-midpoint-zero-length-far-end", "midpoint rooting misplaced the root", "`echo \"((a:3,x:0):1,b:0,c:0);\" | gotree reroot midpoint` gave ((a:3,x:0):1,(b:0,c:0):2); (a-b path 4 became 6): MaxLengthPath stopped at an inner node when the path ended with zero-length branches"),
 ("C05", "C05-midpoint-all-zero-panic", "midpoint rooting of a tree whose branch lengths are all 0", "`echo \"(a:0,b:0,c:0);\" | gotree reroot midpoint` panicked (index -1)"),
 ("C19", "C19-rename-presence", "rename treated an explicit --regexp none", "`gotree rename -e none -b none` (the documented defaults) was treated as a regular-expression rename, unlike omitting the options (cmd.Flags().Changed)"),
 ("C19", "C19-repopulate-presence", "repopulate treated an explicit --id-groups none", "`gotree repopulate -g none` (the documented default) tried to read the file none, unlike omitting the option (cmd.Flags().Changed)"),
 ("C12", "C12-asr-lowercase", "gave lower-case nucleotides no state", "asr counted one spurious step per lower-case tip character: tree (a,b,c), a=b=c=\"a\" gave steps 3 instead of 0 (IUPAC table looked up without upper-casing)"),
 ("C20", "C20-sample-reservoir-index", "sample without replacement drew the reservoir index", "`gotree sample -n 1` on a 2-tree file always returned the second tree (400 of 400 seeds): reservoir index drawn with rand.Intn(totaltrees) instead of totaltrees+1"),
 ("C20", "C20-prune-reservoir-index", "prune --random drew the reservoir index", "`gotree prune --random 1` on 4 tips never selected the first tip (0 of 400 seeds): rand.Intn(i) instead of i+1"),
 ("C16", "C16-unrooted-minimum", "unrooted tree generators accepted sizes", "RandomUniform/Yule/CaterpillarBinaryTree(2,false) returned a one-branch tree together with the RerootFirst error although 2 was the stated minimum; `gotree generate balancedtree -d 1` printed Tip0:0.37Tip1; which gotree cannot read back"),
 ("C03", "C03-outgroup-two-tips-panic", "RerootOutGroup dereferenced a nil pointer on a two-tip tree", "a history prune -> outgroup crashed: RerootOutGroup(false,false,\"a\") on (a:1,b:2); dereferenced a nil pointer (UnRoot leaves a tip as root)"),
 ("C08", "C08-sametree-one-directional", "Compare reported a strict contraction", "tree.Compare reported a strict contraction of the reference as identical: ref ((a,b),c,d), compared (a,b,c,d) gave Tree1=1, Tree2=0, Sametree=true"),
 ("C09", "C09-threshold-rounding", "Consensus kept bipartitions whose frequency equals", "Consensus kept a split present in 29 of 50 trees at cutoff 0.58 (int(0.58*50) = 28), although 29/50 is not greater than 0.58"),
 ("C09", "C09-rooted-double-count", "Consensus counted the root bipartition", "Consensus counted the root split of a rooted input twice: the single tree ((t1,t2),(t0,t3)) at cutoff 0.5 gave the star tree; [(t0,t3,(t1,t2)), ((t1,t2),(t0,t3))] at cutoff 1 lost the split present in every tree"),
 ("C15", "C15-clone-drops-branch-comments", "Clone dropped branch comments", "Clone dropped branch comments: (a:1[ec],b:1,c:1); cloned to (a:1,b:1,c:1);"),
 ("C15", "C15-rmsingle-loses-length", "RemoveSingleNodes lost the length", "RemoveSingleNodes lost a present length above a single-child node whose lower branch has none: ((a):1,b:1,c:1); became (b:1,c:1,a); and d(a,b) dropped from 2 to 1"),
 ("C02", "C02-reinit-single-child-root", "ReinitIndexes dereferenced a nil branch", "every reader accepts a root with one child, e.g. \"(a);\"; ReinitIndexes on the delivered tree panicked (nil branch in computeEdgeHashesRightRecur)"),
 ("C04", "C04-quartet-hash", "Quartet.HashCode sorted its second pair", "Quartet{0,1,2,3} and Quartet{2,3,0,1} are HashEquals but hashed to 924577 and 953377, so a quartet put in a hash map was not found through an equal presentation"),
 ("C04", "C04-capacity-zero", "created with capacity 0 panicked", "NewHashMap(0,lf) / NewEdgeIndex(0,lf) panicked (index out of range) on the first Value or Put"),
 ("C01", "C01-glue-eof-at-buffer-multiple", "a Newick text without final newline whose length is a multiple", "a one-line Newick text without final newline whose byte length is a multiple of the 4096-byte bufio buffer was not delivered by utils.ReadMultiTrees: ReadUntilSemiColon returned io.EOF together with the complete text, e.g. \"(P\" + 4090 x \"p\" + \",B);\" (4096 bytes; 4095 and 4097 bytes were read fine)"),
 ("C03", "C03-nni-undo-after-reroot", "NNI Undo left the central branch wrongly oriented", "NNI Apply, then Reroot into the clade that Apply moved from n2 to n1, then Undo returned nil and left an ill-oriented tree: ((a,(b1,b2)B)X,(c,d)Y,e)R; proposal 0, Reroot(B), Undo: Edges() listed 4 branches for 10 nodes, CheckTree() false (the central branch was only inverted when the root lay behind n1_2)"),
 ("C02", "C02-text-after-closed-tree", "the Newick parser accepted text after an unmatched closing parenthesis", "\"(a))(b;\" was read without error as the tree \"b;\" (also inside a Nexus TREE command) with node ids continuing those of the abandoned first tree; NodeRootDistance() and LTT() on the delivered tree panicked with index out of range"),
 ("C02", "C02-reopened-after-comma", "the Newick parser still started a second tree at level 0", "\"(a,b),(c,d);\", \"()(a,b);\" and \"(a,)(b,c);\" were read without error as the last group only, with node ids continuing those of the abandoned first tree; NodeRootDistance() and LTT() on the delivered tree panicked (second path of C02-text-after-closed-tree: the root popped by a comma or by closing an empty group)"),
 ("C11", "C11-tbe-per-branch-only-panic", "TBE panicked when per-branch transfer tables were requested", "support.TBE with computeperbranchtaxa=true and computeavgtaxa=false (--per-branches without --moved-taxa) panicked with index out of range, with one thread and with several: the per-taxon accumulator was updated although it is only allocated for the per-taxon table (30-tip reference, 4 bootstrap copies)"),
 ("C03", "C03-nni-apply-after-reroot", "NNI Apply left the central branch wrongly oriented", "a rearrangement handle applied after Reroot into the n2-side clade it exchanges returned nil and left an ill-oriented tree: (a,b,((c,d)Z,(e,f)W)Y)R; proposal 0, Reroot(W), Apply: Edges() listed 4 branches for 10 nodes (counterpart of C03-nni-undo-after-reroot; the central branch was only inverted when the root lay behind n1_2)"),
 ("C09", "C09-nan-threshold-accepted", "Consensus accepted a NaN threshold", "tree.Consensus(trees, NaN) was not refused (the range test is false for NaN): with compatible trees it kept every split regardless of frequency, with ((A,B),C,D);((A,C),B,D); it failed later with 'the group should be monophyletic' instead of the threshold error"),
 ("C13", "C13-nexus-endblock", "the Nexus reader did not recognise ENDBLOCK", "\"#NEXUS BEGIN FOO; x y; ENDBLOCK; BEGIN TREES; TREE t=(a,b); END;\" delivered nothing and no error: the unsupported block was skipped up to the END; of the following TREES block (ENDBLOCK is the alternative spelling of END); a TREES block closed with ENDBLOCK; was reported as unterminated"),
 ("C13", "C13-single-reader-line-breaks", "the single-tree Newick reader kept line breaks inside labels and numbers", "a tree written on several lines: \"((a,b)x\\n,c);\" read through utils.ReadTreeReader had the inner name \"x\\n\" (\"x\" through ReadMultiTrees), \"((a,b)0.9\\n,c);\" a node named \"0.9\\n\" instead of the support 0.9, \"(a:1\\n,b);\" an error: 'the first tree' differed from the first tree of the multi-tree reader"),
 ("C13", "C13-nexus-several-trees-blocks", "the Nexus reader kept only the trees of the last TREES block", "a Nexus file with two TREES blocks: \"#NEXUS BEGIN TREES;TREE t1=(a,b);END;BEGIN TREES;TREE t2=(c,d);END;\" delivered only t2 (id 0) through the parser, ReadMultiTrees and ReadTreeReader, t1 was dropped without an error; a tree followed by an empty TREES block delivered nothing"),
 ("C13", "C13-phyloxml-firsttree-nil", "PhyloXML FirstTree assigned a shadowed", "PhyloXML FirstTree returned (nil, nil): reading 'the first tree' of a PhyloXML file failed with 'No tree in the input PhyloXML file' although the iterator delivers it"),
]
OPEN = [
 ("C06", "C06-negative-length-clamped-on-merge", "removeTip merges the two branches around a node left with two neighbours as max(0,l1)+max(0,l2): a NEGATIVE branch length is read as 0 (the clamp exists for the -1 'absent' sentinel), so a path length between remaining tips changes: (a:1,(b:-0.5,c:1):2,d:1); pruned of c gives (a:1,d:1,b:2); (a-b path 3 instead of 2.5); the same idiom is in removeSingleNodesRecur and UnRoot; not repaired because the -1 sentinel makes sums of negative lengths ambiguous and the idiom is shared by three operations and their models"),
 ("C20", "C20-uniform-rooted-root-branch", "RandomUniformBinaryTree(n, true) never inserts a tip above the root: 2*4*...*(2n-4) choice vectors for (2n-3)!! rooted labelled topologies; with n=3 the topology ((Tip0,Tip1),Tip2) is never produced (199/201/0 over 400 seeds)"),
 ("C19", "C19-setrand-presence", "`gotree brlen setrand` draws the mean in [min-mean,max-mean] only when BOTH options are present on the command line (cmd.Flags().Changed): passing their documented defaults --min-mean 0.001 --max-mean 0.05 explicitly gives different branch lengths than omitting them"),
 ("C10", "C10-root-branch-beside-tip", "rooted reference whose root has a tip child: the other root branch is an inner branch with a one-taxon side; FBP gives it (bootstrap trees rooted the same way)/n instead of 1 and TBE leaves it without support (-1); witness ref ((a,(b,(c,d)))), boots [(a,b,(c,d))]"),
 ("C17", "C17-nni-root-branch", "NNIRearranger skips the inner branch through a degree-2 root: rooted ((a,b),(c,d)) gets 0 NNI proposals instead of 2 (2*(k-1) proposals for k inner branches whenever both root children are inner nodes)"),
 ("C13", "C13-nexus-taxa-union", "a tree list whose trees are on different taxon sets does not survive Newick -> Nexus -> Newick: WriteNexus declares the union of all taxa in TAXLABELS and the Nexus reader then rejects every tree on a subset (\"(a,b,c);\\n(a,b);\\n\" -> 'Some tax names defined in TAXLABELS are not present in the tree 1')"),
 ("C13", "C13-newick-two-trees-one-line", "two Newick trees on one physical line: \"(a,b);(c,d);\\n(e,f);\\n\" through ReadMultiTrees delivers (a,b) and (e,f) with ids 0,1; (c,d) is dropped without an error"),
]
import importlib.util
extra = os.path.join(VERIF, "tools", "findings_extra.json")
out = {"comment": "Genuine defects of evolbioinfo/gotree found by the checks. 'open' entries are printed as KNOWN-FINDING by the check of their property and do not fail it (matched by a narrow matcher in driver/props/<id>.py); 'fixed' entries suppress nothing: the check reports the violation again if it returns. Never written at run time.",
       "findings": []}
for prop, fid, pref, what in FIXED:
    c = commit(pref)
    out["findings"].append({"property": prop, "id": fid, "status": "fixed", "commit": c, "what": "fixed: property=%s %s %s" % (prop, c, what)})
if os.path.exists(extra):
    for e in json.load(open(extra)):
        if e.get("status") == "fixed":
            c = commit(e["commit_prefix"])
            out["findings"].append({"property": e["property"], "id": e["id"], "status": "fixed", "commit": c, "what": "fixed: property=%s %s %s" % (e["property"], c, e["what"])})
        else:
            OPEN.append((e["property"], e["id"], e["what"]))
for prop, fid, what in OPEN:
    out["findings"].append({"property": prop, "id": fid, "status": "open", "what": what})
json.dump(out, open(os.path.join(VERIF, "known_findings.json"), "w"), indent=1)
print("%d fixed, %d open" % (len([f for f in out["findings"] if f["status"] == "fixed"]), len(OPEN)))
