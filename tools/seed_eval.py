#!/usr/bin/env python3
"""Confirms a seeded change and runs checks against it, all in a scratch worktree (never in /repo).

  tools/seed_eval.py <seed-dir> <name> <Cxx> [<Cyy> ...]

<seed-dir> holds patch.diff, demo_test.go, meta.json (as delivered by an independent agent).
Steps: (1) demo passes on the unmodified tree; (2) patch applies, `go build ./...` passes;
(3) demo fails with the patch; (4) the repository's own test suite passes with the patch;
(5) each named check is run against the patched worktree (VERIF_REPO) and its verdict recorded.
The result is stored as /verif/seeded/<name>/{patch.diff, demo_test.go, meta.json}."""
import sys, os, re, subprocess, json, shutil, tempfile, hashlib

VERIF = os.path.dirname(os.path.dirname(os.path.abspath(__file__)))
ENV = dict(os.environ, GOFLAGS="-mod=mod", GOPROXY="off", GOSUMDB="off", GOTOOLCHAIN="local")

def sh(cmd, cwd=None, env=None, timeout=3000):
    p = subprocess.run(cmd, cwd=cwd, env=env or ENV, stdout=subprocess.PIPE, stderr=subprocess.STDOUT, timeout=timeout)
    return p.returncode, p.stdout.decode("utf-8", "replace")

def place_demo(wt, demo):
    src = open(demo).read()
    pkg = re.search(r"^package\s+(\w+)", src, flags=re.M).group(1)
    if pkg == "cmd":
        d = os.path.join(wt, "cmd")
    elif pkg == "tests":
        d = os.path.join(wt, "tests")
    elif pkg in ("main", "main_test"):
        d = wt
    else:
        d = os.path.join(wt, "zz_seed_demo")
        os.makedirs(d, exist_ok=True)
    dst = os.path.join(d, "zz_seed_demo_test.go")
    shutil.copy(demo, dst)
    tests = re.findall(r"^func (Test\w+)\(", src, flags=re.M)
    rel = "./" + os.path.relpath(d, wt) if d != wt else "."
    return dst, rel, tests

def run_demo(wt, rel, tests):
    return sh(["go", "test", "-vet=off", "-count=1", "-run", "^(" + "|".join(tests) + ")$", rel], cwd=wt, timeout=1500)

def main():
    seed, name, props = sys.argv[1], sys.argv[2], sys.argv[3:]
    seed = os.path.abspath(seed)
    wt = tempfile.mkdtemp(prefix="seedrun-", dir="/tmp")
    os.rmdir(wt)
    res = {"name": name, "steps": {}, "checks": {}}
    rc, out = sh(["git", "-C", "/repo", "worktree", "add", "-q", "--detach", wt, "HEAD"])
    assert rc == 0, out
    try:
        head = sh(["git", "-C", wt, "rev-parse", "--short", "HEAD"])[1].strip()
        res["repo_head"] = head
        demo = os.path.join(seed, "demo_test.go")
        if not os.path.exists(demo) and os.path.exists(os.path.join(seed, "demo", "main.go")):
            # a demo program (exit 0 = property holds): wrap it into a test placed at the root of the worktree
            src = open(os.path.join(seed, "demo", "main.go")).read()
            open(demo, "w").write("""package main_test

import (
	"os"
	"os/exec"
	"testing"
)

const seedDemoMain = """ + "`" + src.replace("`", "` + \"`\" + `") + "`" + """

func TestSeedDemoMain(t *testing.T) {
	os.MkdirAll("zz_seed_demo_main", 0o755)
	defer os.RemoveAll("zz_seed_demo_main")
	os.WriteFile("zz_seed_demo_main/main.go", []byte(seedDemoMain), 0o644)
	out, err := exec.Command("go", "run", "./zz_seed_demo_main").CombinedOutput()
	if err != nil {
		t.Fatalf("%v\\n%s", err, out)
	}
}
""")
        dst, rel, tests = place_demo(wt, demo)
        rc, out = run_demo(wt, rel, tests)
        res["steps"]["demo_without_change"] = "pass" if rc == 0 else "FAIL: " + out[-600:]
        os.remove(dst)
        rc, out = sh(["git", "-C", wt, "apply", os.path.join(seed, "patch.diff")])
        res["steps"]["patch_applies"] = rc == 0
        if rc != 0:
            res["steps"]["apply_error"] = out[-500:]
        else:
            rc, out = sh(["go", "build", "./..."], cwd=wt)
            res["steps"]["build_with_change"] = "pass" if rc == 0 else "FAIL: " + out[-600:]
            dst, rel, tests = place_demo(wt, demo)
            rc, out = run_demo(wt, rel, tests)
            res["steps"]["demo_with_change"] = "fails (as required)" if rc != 0 else "PASSES (change not demonstrated)"
            os.remove(dst)
            if os.path.isdir(os.path.join(wt, "zz_seed_demo")):
                shutil.rmtree(os.path.join(wt, "zz_seed_demo"))
            for attempt in range(3):
                rc, out = sh(["go", "test", "-vet=off", "-count=1", "./..."], cwd=wt)
                fails = re.findall(r"^--- FAIL: (\w+)", out, flags=re.M)
                if rc == 0 or set(fails) - {"TestEdgeNeighbor"}:
                    break
            res["steps"]["test_suite_with_change"] = "pass" if rc == 0 else "FAIL: " + ",".join(fails)
            for p in props:
                env = dict(os.environ, VERIF_REPO=wt)
                rc, out = sh([os.path.join(VERIF, "check"), p, "--tier", "quick"], cwd=VERIF, env=env)
                lines = [l.replace(wt, "<worktree>") for l in out.split("\n") if re.match(r"VIOLATION|KNOWN-FINDING|check ", l)]
                detail = None
                m = re.search(r"replay=(\S+)", out)
                if m and os.path.exists(m.group(1)):
                    try:
                        rb = json.load(open(m.group(1)))
                        detail = {"kind": rb.get("kind"), "message": rb.get("message"), "note": rb.get("note"),
                                  "case": (rb.get("case") or "")[:1500], "meta": rb.get("meta")}
                    except Exception as e:
                        detail = str(e)
                res["checks"][p] = {"exit": rc, "lines": lines, "detected": rc == 1, "replay": detail}
    finally:
        sh(["git", "-C", "/repo", "worktree", "remove", "--force", wt])
        h = hashlib.sha1(wt.encode()).hexdigest()[:8]
        shutil.rmtree(os.path.join(VERIF, "build", "alt-" + h), ignore_errors=True)
    out = os.path.join(VERIF, "seeded", name)
    os.makedirs(out, exist_ok=True)
    if os.path.abspath(out) != seed:
        shutil.copy(os.path.join(seed, "patch.diff"), out)
        shutil.copy(os.path.join(seed, "demo_test.go"), out)
    meta = {}
    if os.path.exists(os.path.join(seed, "meta.json")):
        try:
            meta = json.load(open(os.path.join(seed, "meta.json")))
            meta.pop("confirmation", None)
        except Exception:
            meta = {"raw": open(os.path.join(seed, "meta.json")).read()[:2000]}
    meta["confirmation"] = res
    json.dump(meta, open(os.path.join(out, "meta.json"), "w"), indent=1)
    print(name, json.dumps(res["steps"]), {p: (c["detected"], c["lines"][:1]) for p, c in res["checks"].items()})

if __name__ == "__main__":
    main()
